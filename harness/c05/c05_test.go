package c05

import (
	"fmt"
	"math/rand/v2"
	"sort"
	"strings"
	"testing"
	"testing/synctest"
	"time"

	"github.com/grafana/dskit/ring"

	"verifharness/rk"
	"verifharness/vt"
)

func cloneDesc(d *ring.Desc) *ring.Desc {
	o := ring.NewDesc()
	for k, v := range d.Ingesters {
		v.Tokens = append([]uint32(nil), v.Tokens...)
		o.Ingesters[k] = v
	}
	return o
}

func canon(d *ring.Desc) string {
	ids := make([]string, 0, len(d.Ingesters))
	for id := range d.Ingesters {
		ids = append(ids, id)
	}
	sort.Strings(ids)
	var b strings.Builder
	for _, id := range ids {
		e := d.Ingesters[id]
		fmt.Fprintf(&b, "%s{ts=%d st=%s tok=%v} ", id, e.Timestamp, e.State, e.Tokens)
	}
	return b.String()
}

func normTokens(t []uint32) []uint32 {
	o := append([]uint32(nil), t...)
	sort.Slice(o, func(i, j int) bool { return o[i] < o[j] })
	out := o[:0]
	for i, x := range o {
		if i == 0 || x != o[i-1] {
			out = append(out, x)
		}
	}
	if len(out) == 0 {
		return nil
	}
	return out
}

// expected computes, from the statement, the state after merging incoming into
// recv: per-entry last-writer-wins (removal wins ties; local CAS turns missing
// entries into removals stamped now), then every claimed token goes to the
// claimant that is not leaving, else to the smaller identifier.
func expected(recv, incoming *ring.Desc, localCAS bool, now int64) (map[string]ring.InstanceDesc, map[uint32][]string) {
	p := map[string]ring.InstanceDesc{}
	for id, e := range recv.Ingesters {
		e.Tokens = append([]uint32(nil), e.Tokens...)
		p[id] = e
	}
	for id, in := range incoming.Ingesters {
		in.Tokens = normTokens(in.Tokens)
		if in.State == ring.LEFT {
			in.Tokens = nil
		}
		cur, ok := p[id]
		if !ok || in.Timestamp > cur.Timestamp || (in.Timestamp == cur.Timestamp && in.State == ring.LEFT && cur.State != ring.LEFT) {
			p[id] = in
		}
	}
	if localCAS {
		for id, e := range p {
			if _, ok := incoming.Ingesters[id]; !ok && e.State != ring.LEFT {
				e.State = ring.LEFT
				e.Tokens = nil
				e.Timestamp = now
				p[id] = e
			}
		}
	}
	claims := map[uint32][]string{}
	for id, e := range p {
		if e.State == ring.LEFT {
			continue
		}
		for _, t := range e.Tokens {
			claims[t] = append(claims[t], id)
		}
	}
	newTok := map[string][]uint32{}
	for t, cl := range claims {
		sort.Slice(cl, func(i, j int) bool {
			li, lj := p[cl[i]].State == ring.LEAVING, p[cl[j]].State == ring.LEAVING
			if li != lj {
				return !li
			}
			return cl[i] < cl[j]
		})
		claims[t] = cl
		newTok[cl[0]] = append(newTok[cl[0]], t)
	}
	for id, e := range p {
		e.Tokens = normTokens(newTok[id])
		p[id] = e
	}
	return p, claims
}

var states = []ring.InstanceState{ring.ACTIVE, ring.ACTIVE, ring.LEAVING, ring.PENDING, ring.JOINING, ring.LEFT}

func randomEntry(rng *rand.Rand, id string, ts int64, space int) ring.InstanceDesc {
	e := ring.InstanceDesc{Id: id, Addr: "addr-" + id, Timestamp: ts, State: states[rng.IntN(len(states))], Zone: fmt.Sprintf("z%d", int(id[1]-'0')%3)}
	n := 1 + rng.IntN(4)
	for i := 0; i < n; i++ {
		e.Tokens = append(e.Tokens, uint32(rng.IntN(space)))
	}
	// unsorted / duplicated incoming lists are allowed
	if rng.IntN(3) == 0 && len(e.Tokens) > 0 {
		e.Tokens = append(e.Tokens, e.Tokens[rng.IntN(len(e.Tokens))])
	}
	if rng.IntN(2) == 0 {
		sort.Slice(e.Tokens, func(i, j int) bool { return e.Tokens[i] < e.Tokens[j] })
	}
	return e
}

func stripLeft(d *ring.Desc) *ring.Desc {
	o := cloneDesc(d)
	for id, e := range o.Ingesters {
		if e.State == ring.LEFT {
			delete(o.Ingesters, id)
		}
	}
	return o
}

// queryRing feeds the reader-visible state to a real ring client and runs lookups.
func queryRing(run *vt.Run, c vt.CaseID, rng *rand.Rand, d *ring.Desc, step int, history []string) {
	vis := stripLeft(d)
	now := time.Now().Unix()
	for id, e := range vis.Ingesters {
		e.Timestamp = now
		vis.Ingesters[id] = e
	}
	za := rng.IntN(2) == 0
	rf := 1 + rng.IntN(3)
	st := rk.NewStore()
	st.RecordGets = false
	st.Put("harness", rk.Key, vis)
	r, stop, err := rk.StartRing(rk.Cfg(rf, za, time.Hour), st.Client("ring"), rk.Key)
	if err != nil {
		run.Inconclusive("ring start: " + err.Error())
		return
	}
	defer stop()
	report := func(api string, err error, p any, stack string) {
		kind := ""
		if p != nil {
			kind = "panic"
		} else if err != nil && strings.Contains(err.Error(), ring.ErrInconsistentTokensInfo.Error()) {
			kind = "inconsistent-tokens-info"
		}
		if kind != "" {
			run.Violation(c, "lookup/"+api+"/"+kind, fmt.Sprintf("%s on a merged ring state: %s", api, kind), map[string]any{"state": canon(vis), "step": step, "history": history, "err": fmt.Sprint(err), "panic": fmt.Sprint(p), "stack": stack, "rf": rf, "zone_aware": za})
		}
	}
	ops := []ring.Operation{ring.Write, ring.WriteNoExtend, ring.Read, ring.Reporting}
	for key := uint32(0); key < 10; key++ {
		k := key
		if key == 9 {
			k = 4294967295
		}
		for _, op := range ops {
			var e error
			p, stack := vt.Recover(func() { _, e = r.Get(k, op, nil, nil, nil) })
			report("Get", e, p, stack)
			run.Count("lookups", 1)
		}
	}
	for _, op := range ops {
		var e error
		p, stack := vt.Recover(func() { _, e = r.GetReplicationSetForOperation(op) })
		report("GetReplicationSetForOperation", e, p, stack)
	}
	for id := range vis.Ingesters {
		var e error
		p, stack := vt.Recover(func() { _, e = r.GetTokenRangesForInstance(id) })
		report("GetTokenRangesForInstance", e, p, stack)
		run.Count("lookups", 1)
	}
	for _, tenant := range []string{"t1", "t2"} {
		for size := 0; size <= 3; size++ {
			p, stack := vt.Recover(func() {
				sub := r.ShuffleShard(tenant, size)
				for key := uint32(0); key < 9; key += 2 {
					_, e := sub.Get(key, ring.Write, nil, nil, nil)
					if e != nil && strings.Contains(e.Error(), ring.ErrInconsistentTokensInfo.Error()) {
						report("ShuffleShard.Get", e, nil, "")
					}
				}
				sub2 := r.ShuffleShardWithLookback(tenant, size, time.Hour, time.Now())
				_, e := sub2.GetAllHealthy(ring.Read)
				_ = e
			})
			report("ShuffleShard", nil, p, stack)
			run.Count("lookups", 1)
		}
	}
}

func TestC05(t *testing.T) {
	run := vt.NewRun("C05", "exploration")
	run.SetRule("case = one Merge step in a chain of merges into replicas that start empty (incoming descriptors pick 1-4 tokens per instance from a space of 6-10 tokens, all states, unsorted/duplicated lists, gossip merges interleaved with local-CAS merges and replica-to-replica full-state and change merges); after every step: exact comparison with the expected state (last-writer-wins, then each claimed token to the non-leaving / smaller-id claimant), one holder per token, sorted duplicate-free lists, determinism under map order (repeated merges), and lookups on a real ring.Ring fed with the reader-visible state. non-trivial = the step had at least one token claimed by two non-left instances; distinct by (receiver, incoming) content.")
	nChains := vt.N(2500, 80000)
	run.ForEachT(t, "chains", nChains, func(t *testing.T, c vt.CaseID, rng *rand.Rand, s *vt.Slot) {
		s.Enter(c, "crash/chains")
		defer s.Leave()
		synctest.Test(t, func(t *testing.T) {
			space := 6 + rng.IntN(5)
			nInst := 2 + rng.IntN(5)
			nRep := 1 + rng.IntN(3)
			reps := make([]*ring.Desc, nRep)
			for i := range reps {
				reps[i] = ring.NewDesc()
			}
			var lastChange []*ring.Desc = make([]*ring.Desc, nRep)
			type heldState struct {
				obj   *ring.Desc
				canon string
			}
			var held []heldState
			var history []string
			steps := 8 + rng.IntN(10)
			for step := 0; step < steps; step++ {
				time.Sleep(time.Duration(rng.IntN(3)) * time.Second)
				now := time.Now().Unix()
				ri := rng.IntN(nRep)
				recv := reps[ri]
				var incoming *ring.Desc
				localCAS := false
				kind := rng.IntN(10)
				switch {
				case kind < 5: // gossip update of a few instances
					incoming = ring.NewDesc()
					for n := 1 + rng.IntN(3); n > 0; n-- {
						id := fmt.Sprintf("i%d", rng.IntN(nInst))
						ts := now - int64(rng.IntN(3))
						incoming.Ingesters[id] = randomEntry(rng, id, ts, space)
					}
				case kind < 7 && nRep > 1: // full state of another replica
					incoming = cloneDesc(reps[(ri+1+rng.IntN(nRep-1))%nRep])
				case kind < 8 && nRep > 1 && lastChange[(ri+1)%nRep] != nil: // change produced by another replica
					incoming = cloneDesc(lastChange[(ri+1)%nRep])
				default: // local CAS: the reader-visible state, edited
					localCAS = true
					incoming = stripLeft(recv)
					switch rng.IntN(3) {
					case 0:
						id := fmt.Sprintf("i%d", rng.IntN(nInst))
						incoming.Ingesters[id] = randomEntry(rng, id, now, space)
					case 1:
						for id := range incoming.Ingesters {
							delete(incoming.Ingesters, id)
							break
						}
					default:
						for id, e := range incoming.Ingesters {
							e.Timestamp = now
							e.State = states[rng.IntN(len(states)-1)]
							incoming.Ingesters[id] = e
							break
						}
					}
				}
				before := cloneDesc(recv)
				want, claims := expected(before, incoming, localCAS, now)
				collisions := 0
				for _, cl := range claims {
					if len(cl) > 1 {
						collisions++
					}
				}
				desc := fmt.Sprintf("step %d replica %d localCAS=%v incoming=%s", step, ri, localCAS, canon(incoming))
				history = append(history, desc)
				if len(history) > 30 {
					history = history[1:]
				}
				inClone := cloneDesc(incoming)
				var change *ring.Desc
				p, stack := vt.Recover(func() {
					ch, err := recv.Merge(inClone, localCAS)
					if err != nil {
						panic(err)
					}
					if ch != nil {
						change, _ = ch.(*ring.Desc)
					}
				})
				if p != nil {
					run.Violation(c, "merge/panic-or-error", "Merge panicked or failed", map[string]any{"history": history, "panic": fmt.Sprint(p), "stack": stack})
					return
				}
				lastChange[ri] = change
				// states handed out earlier (Desc.Clone(), what the KV store gives to readers and ring clients) are
				// never touched by later merges
				for _, h := range held {
					if now := canon(h.obj); now != h.canon {
						run.Violation(c, "held-state-changed-by-later-merge", "a state obtained through Desc.Clone() before this merge changed under the reader's feet", map[string]any{"history": history, "held_then": h.canon, "held_now": now})
						return
					}
				}
				if hc, ok := recv.Clone().(*ring.Desc); ok {
					held = append(held, heldState{hc, canon(hc)})
					if len(held) > 6 {
						held = held[1:]
					}
				}
				run.EvalH(vt.Mix(vt.Hash64(canon(before)), vt.Hash64(canon(incoming)), 1), collisions > 0)
				run.Count("merges", 1)
				run.Count("token_collisions", int64(collisions))
				// invariants straight from the statement
				holder := map[uint32]string{}
				for id, e := range recv.Ingesters {
					for i, tk := range e.Tokens {
						if i > 0 && e.Tokens[i-1] >= tk {
							run.Violation(c, "tokens/unsorted-or-duplicate", "a token list is not strictly increasing after Merge", map[string]any{"history": history, "before": canon(before), "after": canon(recv), "instance": id})
						}
						if e.State == ring.LEFT {
							run.Violation(c, "tokens/left-instance-holds-token", "an instance that has left holds a token", map[string]any{"history": history, "after": canon(recv), "instance": id})
						}
						if prev, ok := holder[tk]; ok {
							run.Violation(c, "tokens/two-holders", fmt.Sprintf("token %d held by %s and %s", tk, prev, id), map[string]any{"history": history, "before": canon(before), "after": canon(recv)})
						}
						holder[tk] = id
					}
				}
				// exact expected state
				mismatch := len(want) != len(recv.Ingesters)
				for id, w := range want {
					g, ok := recv.Ingesters[id]
					if !ok || g.State != w.State || g.Timestamp != w.Timestamp || fmt.Sprint(normTokens(g.Tokens)) != fmt.Sprint(w.Tokens) {
						mismatch = true
					}
				}
				if mismatch {
					wd := ring.NewDesc()
					wd.Ingesters = want
					sig := "merge/result-differs-from-rule"
					if collisions > 0 {
						sig += "/with-collision"
					}
					run.Violation(c, sig, "state after Merge differs from last-writer-wins followed by the collision rule", map[string]any{"history": history, "before": canon(before), "incoming": canon(incoming), "localCAS": localCAS, "after": canon(recv), "want": canon(wd), "claims": fmt.Sprint(claims)})
				}
				// determinism under map iteration order
				if collisions > 0 && rng.IntN(3) == 0 {
					for rep := 0; rep < 6; rep++ {
						b2 := cloneDesc(before)
						b2.Merge(cloneDesc(incoming), localCAS)
						if canon(b2) != canon(recv) {
							run.Violation(c, "merge/nondeterministic", "the same merge gives different results on repetition", map[string]any{"before": canon(before), "incoming": canon(incoming), "a": canon(recv), "b": canon(b2)})
							break
						}
					}
				}
				if collisions > 0 && run.WantSample() {
					run.Sample(map[string]any{"before": canon(before), "incoming": canon(incoming), "localCAS": localCAS, "after": canon(recv), "claims": fmt.Sprint(claims)})
				}
				if rng.IntN(3) == 0 || collisions > 0 {
					queryRing(run, c, rng, recv, step, history)
				}
			}
		})
	})
	if run.Counter("token_collisions") == 0 {
		run.Inconclusive("no token collision was generated")
	}
	run.Finish(t)
}
