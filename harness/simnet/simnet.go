// Package simnet runs N gossip KV nodes detached from any transport inside one
// synctest bubble; the harness plays the network through the exported delegate
// methods (GetBroadcasts / NotifyMsg / LocalState / MergeRemoteState).
package simnet

import (
	"bytes"
	"context"
	"encoding/binary"
	"fmt"
	"sort"
	"strings"
	"time"

	"github.com/go-kit/log"

	"github.com/grafana/dskit/flagext"
	"github.com/grafana/dskit/kv/codec"
	"github.com/grafana/dskit/kv/memberlist"
	"github.com/grafana/dskit/ring"
	"github.com/grafana/dskit/services"
)

const (
	RingKey = "ring"
	PartKey = "partitions"
)

type Node struct {
	Name        string
	KV          *memberlist.KV
	Incarnation int
}

type Net struct {
	Nodes   []*Node
	Cfg     memberlist.KVConfig
	Journal []string
}

func DefaultConfig(retention time.Duration) memberlist.KVConfig {
	var cfg memberlist.KVConfig
	flagext.DefaultValues(&cfg)
	cfg.Codecs = []codec.Codec{ring.GetCodec(), ring.GetPartitionRingCodec()}
	cfg.LeftIngestersTimeout = retention
	cfg.RetransmitMult = 4
	cfg.ObsoleteEntriesTimeout = 0
	return cfg
}

func New(n int, cfg memberlist.KVConfig) (*Net, error) {
	net := &Net{Cfg: cfg}
	for i := 0; i < n; i++ {
		nd := &Node{Name: fmt.Sprintf("n%d", i)}
		net.Nodes = append(net.Nodes, nd)
		if err := net.start(nd); err != nil {
			return nil, err
		}
	}
	return net, nil
}

func (n *Net) start(nd *Node) error {
	cfg := n.Cfg
	cfg.NodeName = nd.Name
	nd.KV = memberlist.NewDetachedKV(cfg, log.NewNopLogger(), nil, func() int { return len(n.Nodes) })
	nd.Incarnation++
	return services.StartAndAwaitRunning(context.Background(), nd.KV)
}

// Restart replaces node i by a fresh KV with an empty store under the same name.
func (n *Net) Restart(i int) error {
	nd := n.Nodes[i]
	_ = services.StopAndAwaitTerminated(context.Background(), nd.KV)
	n.Journal = append(n.Journal, fmt.Sprintf("restart %s", nd.Name))
	return n.start(nd)
}

func (n *Net) Stop() {
	for _, nd := range n.Nodes {
		_ = services.StopAndAwaitTerminated(context.Background(), nd.KV)
	}
}

func (n *Net) Client(i int, c codec.Codec) *memberlist.Client {
	cl, err := memberlist.NewClient(n.Nodes[i].KV, c)
	if err != nil {
		panic(err)
	}
	return cl
}

// Collect takes the pending broadcasts of node i (one gossip tick of that node).
func (n *Net) Collect(i int) [][]byte {
	msgs := n.Nodes[i].KV.GetBroadcasts(2, 10*1024*1024)
	out := make([][]byte, len(msgs))
	for k, m := range msgs {
		out[k] = append([]byte(nil), m...)
	}
	return out
}

// Deliver hands one message to node j (processing is asynchronous: call synctest.Wait()).
func (n *Net) Deliver(j int, msg []byte) {
	n.Nodes[j].KV.NotifyMsg(append([]byte(nil), msg...))
}

// PushPull exchanges full states between i and j in both directions (the periodic exchange).
func (n *Net) PushPull(i, j int) { n.PushPullJoin(i, j, false) }

// PushPullJoin is the exchange with memberlist's join flag: true for the exchange a node runs while joining.
func (n *Net) PushPullJoin(i, j int, join bool) {
	a := append([]byte(nil), n.Nodes[i].KV.LocalState(join)...)
	b := append([]byte(nil), n.Nodes[j].KV.LocalState(join)...)
	n.Nodes[j].KV.MergeRemoteState(a, join)
	n.Nodes[i].KV.MergeRemoteState(b, join)
}

// Push sends the full state of i to j only.
func (n *Net) Push(i, j int) {
	a := append([]byte(nil), n.Nodes[i].KV.LocalState(false)...)
	n.Nodes[j].KV.MergeRemoteState(a, false)
}

// DecodeMessage decodes one gossip message.
func DecodeMessage(msg []byte) (key string, codecID string, val interface{}, deleted bool, err error) {
	var p memberlist.KeyValuePair
	if err = p.Unmarshal(msg); err != nil {
		return
	}
	key, codecID, deleted = p.Key, p.Codec, p.Deleted
	var c codec.Codec
	switch p.Codec {
	case ring.GetCodec().CodecID():
		c = ring.GetCodec()
	case ring.GetPartitionRingCodec().CodecID():
		c = ring.GetPartitionRingCodec()
	default:
		err = fmt.Errorf("unknown codec %q", p.Codec)
		return
	}
	val, err = c.Decode(p.Value)
	return
}

// DecodeState splits a LocalState dump into its messages.
func DecodeState(data []byte) (map[string]interface{}, error) {
	out := map[string]interface{}{}
	for len(data) > 0 {
		if len(data) < 4 {
			return out, fmt.Errorf("short state")
		}
		l := binary.BigEndian.Uint32(data)
		data = data[4:]
		if len(data) < int(l) {
			return out, fmt.Errorf("truncated state")
		}
		k, _, v, _, err := DecodeMessage(data[:l])
		if err != nil {
			return out, err
		}
		out[k] = v
		data = data[l:]
	}
	return out, nil
}

// CanonRing renders a ring descriptor (tombstones included when withTombstones).
func CanonRing(d *ring.Desc, withTombstones bool) string {
	if d == nil {
		return "<nil>"
	}
	ids := make([]string, 0, len(d.Ingesters))
	for id := range d.Ingesters {
		ids = append(ids, id)
	}
	sort.Strings(ids)
	var b strings.Builder
	for _, id := range ids {
		e := d.Ingesters[id]
		if e.State == ring.LEFT && !withTombstones {
			continue
		}
		fmt.Fprintf(&b, "%s{ts=%d st=%v tok=%v z=%s reg=%d ro=%v} ", id, e.Timestamp, e.State, e.Tokens, e.Zone, e.RegisteredTimestamp, e.ReadOnly)
	}
	return b.String()
}

func CanonPart(d *ring.PartitionRingDesc, withTombstones bool) string {
	if d == nil {
		return "<nil>"
	}
	var pids []int
	for id := range d.Partitions {
		pids = append(pids, int(id))
	}
	sort.Ints(pids)
	var b strings.Builder
	for _, id := range pids {
		p := d.Partitions[int32(id)]
		if p.State == ring.PartitionDeleted && !withTombstones {
			continue
		}
		fmt.Fprintf(&b, "P%d{st=%v ts=%d lk=%v/%d ntok=%d} ", id, p.State, p.StateTimestamp, p.StateChangeLocked, p.StateChangeLockedTimestamp, len(p.Tokens))
	}
	var oids []string
	for id := range d.Owners {
		oids = append(oids, id)
	}
	sort.Strings(oids)
	for _, id := range oids {
		o := d.Owners[id]
		if o.State == ring.OwnerDeleted && !withTombstones {
			continue
		}
		fmt.Fprintf(&b, "O%s{p=%d st=%v ts=%d} ", id, o.OwnedPartition, o.State, o.UpdatedTimestamp)
	}
	return b.String()
}

// Canon renders any stored value.
func Canon(v interface{}, withTombstones bool) string {
	switch x := v.(type) {
	case nil:
		return "<nil>"
	case *ring.Desc:
		return CanonRing(x, withTombstones)
	case *ring.PartitionRingDesc:
		return CanonPart(x, withTombstones)
	}
	return fmt.Sprintf("%v", v)
}

// Visible returns what a reader of node i sees for key.
func (n *Net) Visible(i int, key string) string {
	var c codec.Codec = ring.GetCodec()
	if key == PartKey {
		c = ring.GetPartitionRingCodec()
	}
	v, err := n.Client(i, c).Get(context.Background(), key)
	if err != nil {
		return "ERR " + err.Error()
	}
	return Canon(v, true) // readers must not see tombstones: render them if they leak
}

// StateCanon renders the full stored state of node i (tombstones included).
func (n *Net) StateCanon(i int) string {
	st, err := DecodeState(n.Nodes[i].KV.LocalState(false))
	if err != nil {
		return "ERR " + err.Error()
	}
	var keys []string
	for k := range st {
		keys = append(keys, k)
	}
	sort.Strings(keys)
	var b bytes.Buffer
	for _, k := range keys {
		fmt.Fprintf(&b, "%s => %s\n", k, Canon(st[k], true))
	}
	return b.String()
}
