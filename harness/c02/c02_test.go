package c02

import (
	"context"
	"errors"
	"fmt"
	"math/rand/v2"
	"sort"
	"sync"
	"testing"
	"testing/synctest"
	"time"

	"github.com/grafana/dskit/ring"

	"verifharness/rk"
	"verifharness/spec"
	"verifharness/vt"
)

var alphabet = []uint32{0, 1, 2, 3, 1 << 31, 1<<31 - 1, 1<<31 + 1, 4294967292, 4294967293, 4294967294, 4294967295}

// subsets of size k of n indexes
func subsets(n, k int) [][]int {
	var out [][]int
	var cur []int
	var rec func(start int)
	rec = func(start int) {
		if len(cur) == k {
			out = append(out, append([]int(nil), cur...))
			return
		}
		for i := start; i < n; i++ {
			cur = append(cur, i)
			rec(i + 1)
			cur = cur[:len(cur)-1]
		}
	}
	rec(0)
	return out
}

var errReplica = errors.New("replica refused")

// writeAccepted drives a real DoBatch over the real ring for one key with
// acknowledgements exactly from the instances in ack.
func writeAccepted(r *ring.Ring, key uint32, ack map[string]bool, wop ring.Operation) (bool, []string) {
	var mu sync.Mutex
	var called []string
	done := make(chan struct{})
	err := ring.DoBatchWithOptions(context.Background(), wop, r, []uint32{key}, func(d ring.InstanceDesc, _ []int) error {
		mu.Lock()
		called = append(called, d.Id)
		mu.Unlock()
		if ack[d.Id] {
			return nil
		}
		return errReplica
	}, ring.DoBatchOptions{Cleanup: func() { close(done) }, IsClientError: func(error) bool { return false }})
	<-done
	sort.Strings(called)
	return err == nil, called
}

// writeAcceptedBySet drives the replication set's own executor (ReplicationSet.Do, no delay) with acknowledgements
// exactly from the instances in ack: what a caller that looked the set up itself (Ring.GetWithOptions) runs.
func writeAcceptedBySet(W ring.ReplicationSet, ack map[string]bool) (bool, []string) {
	var mu sync.Mutex
	var called []string
	_, err := W.Do(context.Background(), 0, func(_ context.Context, d *ring.InstanceDesc) (interface{}, error) {
		mu.Lock()
		called = append(called, d.Id)
		mu.Unlock()
		if ack[d.Id] {
			return d.Id, nil
		}
		return nil, errReplica
	})
	sort.Strings(called)
	return err == nil, called
}

// readAccepted drives a real DoUntilQuorum over the replication set with answers
// exactly from the instances in ans. Returns acceptance and the ids whose
// results were returned.
func readAccepted(rs ring.ReplicationSet, ans map[string]bool) (bool, []string) {
	var wg sync.WaitGroup
	wg.Add(len(rs.Instances))
	res, err := ring.DoUntilQuorum(context.Background(), rs, ring.DoUntilQuorumConfig{}, func(ctx context.Context, d *ring.InstanceDesc) (string, error) {
		defer wg.Done()
		if ans[d.Id] {
			return d.Id, nil
		}
		return "", errReplica
	}, func(string) {})
	_ = wg
	sort.Strings(res)
	return err == nil, res
}

type c02case struct {
	Insts     map[string]spec.Inst `json:"insts"`
	RF        int                  `json:"rf"`
	ZoneAware bool                 `json:"zone_aware"`
	TimeoutS  int64                `json:"timeout_s"`
	// MovedFromZone: instance -> zone it sat in (same tokens) in the descriptor the client had loaded before
	MovedFromZone map[string]string `json:"previously_in_zone,omitempty"`
}

func TestC02(t *testing.T) {
	run := vt.NewRun("C02", "exploration")
	run.SetRule("case = (ring, key, minimal acknowledging subset A of the Write replica set, minimal answering subset B of the ring-wide Read replication set); A is kept only if a real DoBatch driven with exactly those acknowledgements returns nil, B only if a real DoUntilQuorum driven with exactly those answers returns results; checked: A and B (and the ids DoUntilQuorum actually returned) intersect. non-trivial = both sets have tolerance > 0 or zone-awareness is on or the write set is extended; distinct by (ring, key, A, B).")
	run.Assume("every instance carries a zone when zone-awareness is on (the property's precondition)")

	run.ForEachT(t, "rings", vt.N(2500, 60000), func(t *testing.T, c vt.CaseID, rng *rand.Rand, s *vt.Slot) {
		za := rng.IntN(2) == 0
		rf := 1 + rng.IntN(5)
		nz := 1 + rng.IntN(5)
		ni := 1 + rng.IntN(8)
		timeoutS := int64(60)
		insts := map[string]spec.Inst{}
		used := map[uint32]bool{}
		synctest.Test(t, func(t *testing.T) {
			now := time.Now().Unix() + 3600
			healthyBias := rng.IntN(3)
			for i := 0; i < ni; i++ {
				id := fmt.Sprintf("i%d", i)
				nt := 1 + rng.IntN(3)
				if rng.IntN(8) == 0 {
					nt = 0
				}
				var toks []uint32
				for len(toks) < nt {
					tk := rng.Uint32()
					if rng.IntN(2) == 0 {
						tk = alphabet[rng.IntN(len(alphabet))]
					}
					if !used[tk] {
						used[tk] = true
						toks = append(toks, tk)
					}
				}
				sort.Slice(toks, func(a, b int) bool { return toks[a] < toks[b] })
				zone := fmt.Sprintf("z%d", rng.IntN(nz))
				if !za && rng.IntN(3) == 0 {
					zone = ""
				}
				st := spec.ACTIVE
				hb := now
				if healthyBias == 0 || rng.IntN(4) == 0 {
					st = rng.IntN(5)
				}
				if healthyBias == 0 && rng.IntN(4) == 0 || rng.IntN(10) == 0 {
					hb = now - []int64{timeoutS, timeoutS + 1, 10 * timeoutS}[rng.IntN(3)]
				}
				insts[id] = spec.Inst{ID: id, Zone: zone, Tokens: toks, State: st, Heartbeat: hb}
			}
			cs := c02case{Insts: insts, RF: rf, ZoneAware: za, TimeoutS: timeoutS}
			st := rk.NewStore()
			st.RecordGets = false
			// in a third of the cases the client has a past: it first loaded a descriptor in which one instance sat in
			// another (existing) zone with the same tokens, then the descriptor under test
			var pre map[string]spec.Inst
			if rng.IntN(3) == 0 && nz > 1 && len(insts) > 1 {
				pre = map[string]spec.Inst{}
				for id, in := range insts {
					pre[id] = in
				}
				ids := make([]string, 0, len(insts))
				for id := range insts {
					ids = append(ids, id)
				}
				sort.Strings(ids)
				mv := pre[ids[rng.IntN(len(ids))]]
				other := insts[ids[rng.IntN(len(ids))]].Zone
				if other != mv.Zone {
					mv.Zone = other
					pre[mv.ID] = mv
					cs.MovedFromZone = map[string]string{mv.ID: other}
				} else {
					pre = nil
				}
			}
			if pre != nil {
				st.Put("harness", rk.Key, rk.Desc(pre))
			} else {
				st.Put("harness", rk.Key, rk.Desc(insts))
			}
			r, stop, err := rk.StartRing(rk.Cfg(rf, za, time.Duration(timeoutS)*time.Second), st.Client("ring"), rk.Key)
			if err != nil {
				run.Inconclusive("ring start: " + err.Error())
				return
			}
			defer stop()
			if pre != nil {
				st.Put("harness", rk.Key, rk.Desc(insts))
				time.Sleep(time.Second)
				synctest.Wait()
				run.Count("clients_with_a_previous_descriptor", 1)
			}
			time.Sleep(time.Until(time.Unix(now, 0)))
			s.Enter(c, "crash/rings")
			defer s.Leave()

			R, errR := r.GetReplicationSetForOperation(ring.Read)
			if errR != nil {
				run.Count("read_set_failed", 1)
				return
			}
			// minimal answering sets
			var Bs [][]string
			if R.ZoneAwarenessEnabled || R.MaxUnavailableZones > 0 {
				zonesOf := map[string][]string{}
				for _, i := range R.Instances {
					zonesOf[i.Zone] = append(zonesOf[i.Zone], i.Id)
				}
				var zs []string
				for z := range zonesOf {
					zs = append(zs, z)
				}
				sort.Strings(zs)
				k := len(zs) - R.MaxUnavailableZones
				if k < 0 {
					k = 0
				}
				for _, sub := range subsets(len(zs), k) {
					var b []string
					for _, zi := range sub {
						b = append(b, zonesOf[zs[zi]]...)
					}
					Bs = append(Bs, b)
				}
			} else {
				k := len(R.Instances) - R.MaxErrors
				all := subsets(len(R.Instances), k)
				if len(all) > 40 {
					rng.Shuffle(len(all), func(i, j int) { all[i], all[j] = all[j], all[i] })
					all = all[:40]
				}
				for _, sub := range all {
					var b []string
					for _, i := range sub {
						b = append(b, R.Instances[i].Id)
					}
					Bs = append(Bs, b)
				}
			}
			type accB struct {
				b, returned []string
			}
			var okB []accB
			for _, b := range Bs {
				m := map[string]bool{}
				for _, id := range b {
					m[id] = true
				}
				ok, ret := readAccepted(R, m)
				synctest.Wait()
				if !ok {
					run.Count("minimal_answer_set_rejected_by_DoUntilQuorum", 1)
					run.Violation(c, "read-minimal-set-rejected", "DoUntilQuorum rejected a set of answers the replication set's tolerance permits", map[string]any{"case": cs, "read_set": rk.IDs(R), "max_errors": R.MaxErrors, "max_unavailable_zones": R.MaxUnavailableZones, "answers": b})
					continue
				}
				okB = append(okB, accB{b, ret})
			}
			keys := []uint32{0, 4294967295, rng.Uint32(), rng.Uint32()}
			for tk := range used {
				if rng.IntN(3) == 0 {
					keys = append(keys, tk, tk-1)
				}
			}
			csig := vt.Hash64(fmt.Sprint(cs))
			for _, key := range keys {
				// a third of the writes use the built-in operation that does not extend the replica set
				wop := ring.Write
				if (uint64(key)+uint64(c.Idx))%3 == 0 {
					wop = ring.WriteNoExtend
				}
				var W ring.ReplicationSet
				var errW error
				viaOptions := (uint64(key)+uint64(c.Idx))%4 == 1
				if viaOptions {
					// the options entry point with the replication factor left at its default; such a caller runs the
					// returned set's own executor
					W, errW = r.GetWithOptions(key, wop)
					run.Count("write_sets_through_GetWithOptions", 1)
				} else {
					W, errW = r.Get(key, wop, nil, nil, nil)
				}
				if errW != nil {
					run.Count("write_set_failed", 1)
					continue
				}
				k := len(W.Instances) - W.MaxErrors
				// the minimal sets the tolerance permits, and the sets one acknowledgement smaller: whatever the
				// real DoBatch accepts as a successful write has to intersect every successful read
				subs := subsets(len(W.Instances), k)
				nMinimal := len(subs)
				if k > 1 {
					subs = append(subs, subsets(len(W.Instances), k-1)...)
				}
				for si, sub := range subs {
					A := map[string]bool{}
					var al []string
					for _, i := range sub {
						A[W.Instances[i].Id] = true
						al = append(al, W.Instances[i].Id)
					}
					sort.Strings(al)
					var ok bool
					var called []string
					if viaOptions {
						ok, called = writeAcceptedBySet(W, A)
					} else {
						ok, called = writeAccepted(r, key, A, wop)
					}
					synctest.Wait()
					if !ok && si >= nMinimal {
						continue // fewer acknowledgements than the tolerance permits: rejected, as it should be
					}
					if !ok {
						run.Violation(c, "write-minimal-set-rejected", "DoBatch rejected a set of acknowledgements the write set's tolerance permits", map[string]any{"case": cs, "key": key, "write_set": rk.IDs(W), "max_errors": W.MaxErrors, "acks": al, "called": called})
						continue
					}
					for _, b := range okB {
						inter := false
						for _, id := range b.b {
							if A[id] {
								inter = true
							}
						}
						interRet := false
						for _, id := range b.returned {
							if A[id] {
								interRet = true
							}
						}
						nontrivial := (W.MaxErrors > 0 && (R.MaxErrors > 0 || R.MaxUnavailableZones > 0)) || za || len(W.Instances) > rf
						run.EvalH(vt.Mix(csig, uint64(key), vt.Hash64(fmt.Sprint(al)), vt.Hash64(fmt.Sprint(b.b))), nontrivial)
						if !inter || !interRet {
							sig := "write-quorum-disjoint-from-read-quorum"
							if za {
								sig += "/zone-aware"
							}
							run.Violation(c, sig, fmt.Sprintf("acknowledging set %v of key %d and answering set %v are disjoint", al, key, b.b), map[string]any{
								"case": cs, "key": key, "write_set": rk.IDs(W), "write_max_errors": W.MaxErrors, "acks": al,
								"read_set": rk.IDs(R), "read_max_errors": R.MaxErrors, "read_max_unavailable_zones": R.MaxUnavailableZones, "answers": b.b, "returned_by_DoUntilQuorum": b.returned})
						}
						if nontrivial && run.WantSample() {
							run.Sample(map[string]any{"case": cs, "key": key, "write_set": rk.IDs(W), "write_max_errors": W.MaxErrors, "acks": al, "read_set": rk.IDs(R), "read_tolerance": []int{R.MaxErrors, R.MaxUnavailableZones}, "answers": b.b})
						}
					}
				}
			}
		})
	})
	if run.Counter("read_set_failed") > 0 {
		run.SetExtra("rings_where_read_lookup_failed", run.Counter("read_set_failed"))
	}
	run.Finish(t)
}
