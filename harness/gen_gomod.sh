#!/bin/bash
# Regenerates harness/go.mod and go.sum from /repo's current go.mod so that the
# harness always builds against /repo's working tree (replace => $REPO).
set -e
REPO="${VERIF_REPO:-/repo}"
cd "$(dirname "$0")"
{
  echo "module verifharness"
  echo
  sed -n '/^go /,$p' "$REPO/go.mod"
  echo
  echo "require github.com/grafana/dskit v0.0.0"
  echo "require github.com/anishathalye/porcupine v1.3.0"
  echo "replace github.com/grafana/dskit => $REPO"
} > go.mod.new
cat "$REPO/go.sum" > go.sum.new
MC="$(go env GOMODCACHE)"
for m in github.com/anishathalye/porcupine@v1.3.0; do
  n="${m%@*}"; v="${m#*@}"
  d="$MC/cache/download/$n/@v"
  if [ -f "$d/$v.ziphash" ]; then echo "$n $v $(cat $d/$v.ziphash)" >> go.sum.new; fi
  if [ -f "$d/$v.mod" ]; then
    h=$(cd /tmp && python3 - "$d/$v.mod" <<'PY'
import sys,hashlib,base64
data=open(sys.argv[1],'rb').read()
h=hashlib.sha256(data).hexdigest()
line=f"{h}  go.mod\n".encode()
print("h1:"+base64.b64encode(hashlib.sha256(line).digest()).decode())
PY
)
    echo "$n $v/go.mod $h" >> go.sum.new
  fi
done
if ! cmp -s go.mod.new go.mod 2>/dev/null; then mv go.mod.new go.mod; else rm go.mod.new; fi
if ! cmp -s go.sum.new go.sum 2>/dev/null; then mv go.sum.new go.sum; else rm go.sum.new; fi
