package c03

import (
	"fmt"
	"math/rand/v2"
	"sort"
	"strings"
	"testing"

	"github.com/grafana/dskit/kv/memberlist"
	"github.com/grafana/dskit/ring"

	"verifharness/vt"
)

// ---------------------------------------------------------------------------
// A "world" fixes the content function: (entry, timestamp) -> content, so that
// one (entry, timestamp[, removed]) denotes one content (the property's
// precondition). Token sets of different instances are disjoint.

type world struct {
	ids    []string
	state  map[string][4]ring.InstanceState // by timestamp 1..3
	tokens map[string][4][]uint32
	zone   map[string][4]string
	// partition ring
	pstate  map[int32][4]ring.PartitionState
	plocked map[int32][4]bool
	ptokens map[int32][]uint32
	oowned  map[string][4]int32
}

func newWorld(rng *rand.Rand) *world {
	w := &world{ids: []string{"a", "b", "c"}, state: map[string][4]ring.InstanceState{}, tokens: map[string][4][]uint32{}, zone: map[string][4]string{},
		pstate: map[int32][4]ring.PartitionState{}, plocked: map[int32][4]bool{}, ptokens: map[int32][]uint32{}, oowned: map[string][4]int32{}}
	for i, id := range w.ids {
		var st [4]ring.InstanceState
		var tk [4][]uint32
		var zn [4]string
		alpha := []uint32{uint32(i*10 + 1), uint32(i*10 + 2), uint32(i*10 + 3)}
		for ts := 1; ts <= 3; ts++ {
			st[ts] = ring.InstanceState(rng.IntN(4)) // ACTIVE, LEAVING, PENDING, JOINING
			var t []uint32
			for _, a := range alpha {
				if rng.IntN(2) == 0 {
					t = append(t, a)
				}
			}
			tk[ts] = t
			zn[ts] = fmt.Sprintf("z%d", rng.IntN(2))
		}
		w.state[id], w.tokens[id], w.zone[id] = st, tk, zn
	}
	for p := int32(0); p < 3; p++ {
		var st [4]ring.PartitionState
		var lk [4]bool
		for ts := 1; ts <= 3; ts++ {
			st[ts] = ring.PartitionState(1 + rng.IntN(3)) // pending, active, inactive
			lk[ts] = rng.IntN(2) == 0
		}
		w.pstate[p], w.plocked[p] = st, lk
		w.ptokens[p] = []uint32{uint32(p*100 + 1), uint32(p*100 + 7)}
	}
	for _, o := range []string{"o1", "o2"} {
		var ow [4]int32
		for ts := 1; ts <= 3; ts++ {
			ow[ts] = int32(rng.IntN(3))
		}
		w.oowned[o] = ow
	}
	return w
}

// instance entry option: 0 absent; otherwise ts = (opt-1)/2+1, left = (opt-1)%2==1
func (w *world) inst(id string, opt int) (ring.InstanceDesc, bool) {
	if opt == 0 {
		return ring.InstanceDesc{}, false
	}
	ts := (opt-1)/2 + 1
	left := (opt-1)%2 == 1
	d := ring.InstanceDesc{Id: id, Addr: "addr-" + id, Timestamp: int64(ts), Zone: w.zone[id][ts], RegisteredTimestamp: 1}
	if left {
		d.State = ring.LEFT
	} else {
		d.State = w.state[id][ts]
		d.Tokens = append([]uint32(nil), w.tokens[id][ts]...)
	}
	return d, true
}

func (w *world) instDesc(opts []int) *ring.Desc {
	d := ring.NewDesc()
	for i, o := range opts {
		if e, ok := w.inst(w.ids[i], o); ok {
			d.Ingesters[w.ids[i]] = e
		}
	}
	return d
}

// partition option: 0 absent; else s = (opt-1)%4: (ts1 normal, ts1 deleted, ts2 normal, ts2 deleted), lock = (opt-1)/4 in {0 never,1,2}
func (w *world) part(id int32, opt int) (ring.PartitionDesc, bool) {
	if opt == 0 {
		return ring.PartitionDesc{}, false
	}
	s := (opt - 1) % 4
	lock := (opt - 1) / 4
	ts := s/2 + 1
	p := ring.PartitionDesc{Id: id, Tokens: append([]uint32(nil), w.ptokens[id]...), StateTimestamp: int64(ts)}
	if s%2 == 1 {
		p.State = ring.PartitionDeleted
	} else {
		p.State = w.pstate[id][ts]
	}
	if lock > 0 {
		p.StateChangeLockedTimestamp = int64(lock)
		p.StateChangeLocked = w.plocked[id][lock]
	}
	return p, true
}

// owner option: 0 absent; else (ts1 normal, ts1 deleted, ts2 normal, ts2 deleted)
func (w *world) owner(id string, opt int) (ring.OwnerDesc, bool) {
	if opt == 0 {
		return ring.OwnerDesc{}, false
	}
	s := opt - 1
	ts := s/2 + 1
	o := ring.OwnerDesc{OwnedPartition: w.oowned[id][ts], UpdatedTimestamp: int64(ts), State: ring.OwnerActive}
	if s%2 == 1 {
		o.State = ring.OwnerDeleted
	}
	return o, true
}

func (w *world) partDesc(popts []int, oopts []int) *ring.PartitionRingDesc {
	d := ring.NewPartitionRingDesc()
	for i, o := range popts {
		if p, ok := w.part(int32(i), o); ok {
			d.Partitions[int32(i)] = p
		}
	}
	for i, o := range oopts {
		id := fmt.Sprintf("o%d", i+1)
		if e, ok := w.owner(id, o); ok {
			d.Owners[id] = e
		}
	}
	return d
}

// ---------------------------------------------------------------------------
// canonical content

func canonInst(d *ring.Desc) string {
	ids := make([]string, 0, len(d.Ingesters))
	for id := range d.Ingesters {
		ids = append(ids, id)
	}
	sort.Strings(ids)
	var b strings.Builder
	for _, id := range ids {
		e := d.Ingesters[id]
		tk := append([]uint32(nil), e.Tokens...)
		sort.Slice(tk, func(i, j int) bool { return tk[i] < tk[j] })
		fmt.Fprintf(&b, "%s{ts=%d st=%d tok=%v z=%s a=%s reg=%d ro=%v/%d v=%v}", id, e.Timestamp, e.State, tk, e.Zone, e.Addr, e.RegisteredTimestamp, e.ReadOnly, e.ReadOnlyUpdatedTimestamp, e.Versions)
	}
	return b.String()
}

func tokensNormalised(d *ring.Desc) bool {
	for _, e := range d.Ingesters {
		for i := 1; i < len(e.Tokens); i++ {
			if e.Tokens[i-1] >= e.Tokens[i] {
				return false
			}
		}
		if e.State == ring.LEFT && len(e.Tokens) > 0 {
			return false
		}
	}
	return true
}

func canonPart(d *ring.PartitionRingDesc) string {
	var pids []int
	for id := range d.Partitions {
		pids = append(pids, int(id))
	}
	sort.Ints(pids)
	var b strings.Builder
	for _, id := range pids {
		p := d.Partitions[int32(id)]
		fmt.Fprintf(&b, "P%d{st=%d ts=%d lk=%v/%d tok=%v}", id, p.State, p.StateTimestamp, p.StateChangeLocked, p.StateChangeLockedTimestamp, p.Tokens)
	}
	var oids []string
	for id := range d.Owners {
		oids = append(oids, id)
	}
	sort.Strings(oids)
	for _, id := range oids {
		o := d.Owners[id]
		fmt.Fprintf(&b, "O%s{p=%d st=%d ts=%d}", id, o.OwnedPartition, o.State, o.UpdatedTimestamp)
	}
	return b.String()
}

// generic operations over both descriptor kinds
type ops struct {
	kind  string
	clone func(m memberlist.Mergeable) memberlist.Mergeable
	canon func(m memberlist.Mergeable) string
	empty func() memberlist.Mergeable
	isNil func(m memberlist.Mergeable) bool
}

var instOps = ops{"instance-ring",
	func(m memberlist.Mergeable) memberlist.Mergeable {
		d := m.(*ring.Desc)
		o := ring.NewDesc()
		for k, v := range d.Ingesters {
			v.Tokens = append([]uint32(nil), v.Tokens...)
			o.Ingesters[k] = v
		}
		return o
	},
	func(m memberlist.Mergeable) string { return canonInst(m.(*ring.Desc)) },
	func() memberlist.Mergeable { return ring.NewDesc() },
	func(m memberlist.Mergeable) bool { return m == nil || m.(*ring.Desc) == nil },
}

var partOps = ops{"partition-ring",
	func(m memberlist.Mergeable) memberlist.Mergeable { return m.(*ring.PartitionRingDesc).Clone() },
	func(m memberlist.Mergeable) string { return canonPart(m.(*ring.PartitionRingDesc)) },
	func() memberlist.Mergeable { return ring.NewPartitionRingDesc() },
	func(m memberlist.Mergeable) bool { return m == nil || m.(*ring.PartitionRingDesc) == nil },
}

// merge returns the end state of a copy of a after merging a copy of b, and the change.
func (o ops) merge(a, b memberlist.Mergeable) (memberlist.Mergeable, memberlist.Mergeable, error) {
	ac := o.clone(a)
	ch, err := ac.Merge(o.clone(b), false)
	return ac, ch, err
}

type checker struct {
	run *vt.Run
	c   vt.CaseID
	o   ops
}

func (k checker) fail(law, what string, detail map[string]any) {
	k.run.Violation(k.c, k.o.kind+"/"+law, what, detail)
}

// pair laws on (A,B)
func (k checker) pair(a, b memberlist.Mergeable) {
	o := k.o
	ab, ch, err := o.merge(a, b)
	if err != nil {
		k.fail("merge-error", "Merge returned an error", map[string]any{"A": o.canon(a), "B": o.canon(b), "err": err.Error()})
		return
	}
	ba, _, _ := o.merge(b, a)
	ca, cb, cab, cba := o.canon(a), o.canon(b), o.canon(ab), o.canon(ba)
	if cab != cba {
		k.fail("not-commutative", "A.Merge(B) and B.Merge(A) end in different states", map[string]any{"A": ca, "B": cb, "A.Merge(B)": cab, "B.Merge(A)": cba})
	}
	// idempotent
	ab2 := o.clone(ab)
	ch2, _ := ab2.Merge(o.clone(b), false)
	if o.canon(ab2) != cab || !o.isNil(ch2) {
		k.fail("not-idempotent", "merging the same descriptor twice changes the state or reports a change again", map[string]any{"A": ca, "B": cb, "after1": cab, "after2": o.canon(ab2), "second_change_nil": o.isNil(ch2)})
	}
	// nil change => content untouched
	if o.isNil(ch) {
		if cab != ca {
			k.fail("nil-change-but-content-changed", "Merge reported no change but altered the content", map[string]any{"A": ca, "B": cb, "after": cab})
		}
	} else {
		// sufficiency into the pre-merge state
		a2 := o.clone(a)
		if _, err := a2.Merge(o.clone(ch), false); err != nil || o.canon(a2) != cab {
			k.fail("change-not-sufficient", "merging the reported change into the pre-merge state differs from merging the full descriptor", map[string]any{"A": ca, "B": cb, "change": o.canon(ch), "A.Merge(B)": cab, "A.Merge(change)": o.canon(a2)})
		}
		if cab == ca {
			k.fail("change-reported-but-content-equal", "Merge reported a change although the content is unchanged", map[string]any{"A": ca, "B": cb, "change": o.canon(ch)})
		}
	}
	if o.kind == "instance-ring" {
		if !tokensNormalised(ab.(*ring.Desc)) {
			k.fail("receiver-not-normalised", "token lists of the receiver are not sorted/duplicate-free after Merge", map[string]any{"A": ca, "B": cb, "after": cab})
		}
		k.lwwInst(a.(*ring.Desc), b.(*ring.Desc), ab.(*ring.Desc))
	} else {
		k.lwwPart(a.(*ring.PartitionRingDesc), b.(*ring.PartitionRingDesc), ab.(*ring.PartitionRingDesc))
	}
}

// per-entry expectation: newer timestamp wins; at equal timestamps a removal wins.
func (k checker) lwwInst(a, b, ab *ring.Desc) {
	for id := range map[string]bool{"a": true, "b": true, "c": true} {
		ea, inA := a.Ingesters[id]
		eb, inB := b.Ingesters[id]
		var want ring.InstanceDesc
		switch {
		case !inA && !inB:
			if _, ok := ab.Ingesters[id]; ok {
				k.fail("entry-from-nowhere", "an entry appeared that neither operand holds", map[string]any{"id": id})
			}
			continue
		case !inA:
			want = eb
		case !inB:
			want = ea
		case eb.Timestamp > ea.Timestamp:
			want = eb
		case eb.Timestamp == ea.Timestamp && eb.State == ring.LEFT && ea.State != ring.LEFT:
			want = eb
		default:
			want = ea
		}
		got := ab.Ingesters[id]
		if got.Timestamp != want.Timestamp || got.State != want.State || fmt.Sprint(got.Tokens) != fmt.Sprint(want.Tokens) && !(len(got.Tokens) == 0 && len(want.Tokens) == 0) {
			k.fail("lww-rule", "per-entry result is not newer-timestamp-wins / removal-wins-on-tie", map[string]any{"id": id, "A": canonInst(a), "B": canonInst(b), "got": fmt.Sprintf("%+v", got), "want": fmt.Sprintf("%+v", want)})
		}
	}
}

func (k checker) lwwPart(a, b, ab *ring.PartitionRingDesc) {
	for id := int32(0); id < 3; id++ {
		pa, inA := a.Partitions[id]
		pb, inB := b.Partitions[id]
		if !inA && !inB {
			continue
		}
		var st ring.PartitionState
		var sts, lts int64
		var lk bool
		switch {
		case !inA:
			st, sts, lk, lts = pb.State, pb.StateTimestamp, pb.StateChangeLocked, pb.StateChangeLockedTimestamp
		case !inB:
			st, sts, lk, lts = pa.State, pa.StateTimestamp, pa.StateChangeLocked, pa.StateChangeLockedTimestamp
		default:
			st, sts = pa.State, pa.StateTimestamp
			if pb.StateTimestamp > pa.StateTimestamp || (pb.StateTimestamp == pa.StateTimestamp && pb.State == ring.PartitionDeleted && pa.State != ring.PartitionDeleted) {
				st, sts = pb.State, pb.StateTimestamp
			}
			lk, lts = pa.StateChangeLocked, pa.StateChangeLockedTimestamp
			if pb.StateChangeLockedTimestamp > pa.StateChangeLockedTimestamp {
				lk, lts = pb.StateChangeLocked, pb.StateChangeLockedTimestamp
			}
		}
		g := ab.Partitions[id]
		if g.State != st || g.StateTimestamp != sts || g.StateChangeLocked != lk || g.StateChangeLockedTimestamp != lts {
			k.fail("lww-rule", "partition registers are not newer-timestamp-wins / deletion-wins-on-tie", map[string]any{"partition": id, "A": canonPart(a), "B": canonPart(b), "got": fmt.Sprintf("%+v", g)})
		}
	}
	for _, id := range []string{"o1", "o2"} {
		oa, inA := a.Owners[id]
		ob, inB := b.Owners[id]
		if !inA && !inB {
			continue
		}
		want := oa
		if !inA || ob.UpdatedTimestamp > oa.UpdatedTimestamp || (inB && ob.UpdatedTimestamp == oa.UpdatedTimestamp && ob.State == ring.OwnerDeleted && oa.State != ring.OwnerDeleted) {
			want = ob
		}
		if g := ab.Owners[id]; g != want {
			k.fail("lww-rule", "owner entry is not newer-timestamp-wins / deletion-wins-on-tie", map[string]any{"owner": id, "A": canonPart(a), "B": canonPart(b), "got": fmt.Sprintf("%+v", g), "want": fmt.Sprintf("%+v", want)})
		}
	}
}

// triple laws on (A,B,C)
func (k checker) triple(a, b, c memberlist.Mergeable) {
	o := k.o
	ab, chAB, _ := o.merge(a, b)
	abc1, _, _ := o.merge(ab, c)
	bc, _, _ := o.merge(b, c)
	abc2, _, _ := o.merge(a, bc)
	if o.canon(abc1) != o.canon(abc2) {
		k.fail("not-associative", "(A.Merge(B)).Merge(C) differs from A.Merge(B.Merge(C))", map[string]any{"A": o.canon(a), "B": o.canon(b), "C": o.canon(c), "left": o.canon(abc1), "right": o.canon(abc2)})
	}
	// sufficiency into a replica that already contains A: S = A merged with C
	s, _, _ := o.merge(a, c)
	sb, _, _ := o.merge(s, b)
	sc := o.clone(s)
	if !o.isNil(chAB) {
		sc.Merge(o.clone(chAB), false)
	}
	if o.canon(sc) != o.canon(sb) {
		k.fail("change-not-sufficient-for-superset-replica", "merging the change of A.Merge(B) into a replica containing A differs from merging B into it", map[string]any{"A": o.canon(a), "B": o.canon(b), "C": o.canon(c), "S=A+C": o.canon(s), "S.Merge(B)": o.canon(sb), "S.Merge(change)": o.canon(sc), "change": func() string {
			if o.isNil(chAB) {
				return "nil"
			}
			return o.canon(chAB)
		}()})
	}
}

func TestC03(t *testing.T) {
	run := vt.NewRun("C03", "exploration")
	run.SetRule("case = pair or triple of descriptors (real Desc.Merge / PartitionRingDesc.Merge with localCAS=false on deep clones) checked for idempotence, commutativity, associativity, sufficiency of the reported change (into the pre-merge state and into a superset replica), nil-change => unchanged content, and the per-entry newer-wins / removal-wins-on-tie rule; plus update sets delivered to 3-5 replicas in shuffled order, regrouped and duplicated. non-trivial = the operands share at least one entry id; distinct by canonical content of the operands. Universe: per entry {absent, ts in 1..3 x {present, removed}} over 3 instance ids (343 descriptors), 2 partitions x 13 register states and 1 partition x 2 owners; contents fixed per world by a content function (entry,timestamp)->content.")
	run.Assume("each (entry, timestamp, removed?) denotes one content; token sets of different instances are disjoint (collisions are C05)")

	nWorlds := vt.N(3, 12)
	// exhaustive pairs per world
	for wi := 0; wi < nWorlds; wi++ {
		wi := wi
		gen := fmt.Sprintf("inst-pairs-w%d", wi)
		wc := vt.CaseID{Gen: "world", Idx: int64(wi), Seed: vt.Seed()}
		w := newWorld(wc.Rand())
		var U [][]int
		for x := 0; x < 7; x++ {
			for y := 0; y < 7; y++ {
				for z := 0; z < 7; z++ {
					U = append(U, []int{x, y, z})
				}
			}
		}
		run.ForEach(gen, len(U), func(c vt.CaseID, rng *rand.Rand, s *vt.Slot) {
			k := checker{run, c, instOps}
			a := w.instDesc(U[c.Idx])
			ca := vt.Hash64(canonInst(a))
			for _, ub := range U {
				b := w.instDesc(ub)
				share := false
				for i := range ub {
					if ub[i] != 0 && U[c.Idx][i] != 0 {
						share = true
					}
				}
				run.EvalH(vt.Mix(ca, vt.Hash64(canonInst(b)), 2), share)
				k.pair(a, b)
			}
			if c.Idx == 100 {
				run.Sample(map[string]any{"kind": "instance pair", "A": canonInst(a), "B": canonInst(w.instDesc(U[217]))})
			}
		})
		// triples: timestamps 1..2 only (5 options per id) -> 125^3
		var U2 [][]int
		for x := 0; x < 5; x++ {
			for y := 0; y < 5; y++ {
				for z := 0; z < 5; z++ {
					U2 = append(U2, []int{x, y, z})
				}
			}
		}
		stride := 1
		if !vt.Thorough() {
			stride = 5
		}
		run.ForEach(fmt.Sprintf("inst-triples-w%d", wi), len(U2), func(c vt.CaseID, rng *rand.Rand, s *vt.Slot) {
			k := checker{run, c, instOps}
			a := w.instDesc(U2[c.Idx])
			ha := vt.Hash64(canonInst(a))
			for bi, ub := range U2 {
				b := w.instDesc(ub)
				hb := vt.Hash64(canonInst(b))
				for ci := (bi + int(c.Idx) + int(vt.Seed())) % stride; ci < len(U2); ci += stride {
					cc := w.instDesc(U2[ci])
					run.EvalH(vt.Mix(ha, hb, vt.Hash64(canonInst(cc)), 3), true)
					k.triple(a, b, cc)
				}
			}
		})
		// partition ring: 2 partitions x 13 = 169 descriptors, pairs exhaustive, triples strided
		var PU [][2][]int
		for x := 0; x < 13; x++ {
			for y := 0; y < 13; y++ {
				PU = append(PU, [2][]int{{x, y}, {0, 0}})
			}
		}
		for x := 0; x < 13; x++ {
			for o1 := 0; o1 < 5; o1++ {
				for o2 := 0; o2 < 5; o2++ {
					if o1 == 0 && o2 == 0 {
						continue
					}
					PU = append(PU, [2][]int{{x, 0}, {o1, o2}})
				}
			}
		}
		run.ForEach(fmt.Sprintf("part-pairs-w%d", wi), len(PU), func(c vt.CaseID, rng *rand.Rand, s *vt.Slot) {
			k := checker{run, c, partOps}
			a := w.partDesc(PU[c.Idx][0], PU[c.Idx][1])
			ha := vt.Hash64(canonPart(a))
			for _, ub := range PU {
				b := w.partDesc(ub[0], ub[1])
				run.EvalH(vt.Mix(ha, vt.Hash64(canonPart(b)), 4), true)
				k.pair(a, b)
			}
			if c.Idx == 50 {
				run.Sample(map[string]any{"kind": "partition pair", "A": canonPart(a), "B": canonPart(w.partDesc(PU[99][0], PU[99][1]))})
			}
		})
		pstride := 7
		if !vt.Thorough() {
			pstride = 61
		}
		run.ForEach(fmt.Sprintf("part-triples-w%d", wi), len(PU), func(c vt.CaseID, rng *rand.Rand, s *vt.Slot) {
			k := checker{run, c, partOps}
			a := w.partDesc(PU[c.Idx][0], PU[c.Idx][1])
			ha := vt.Hash64(canonPart(a))
			for bi, ub := range PU {
				b := w.partDesc(ub[0], ub[1])
				hb := vt.Hash64(canonPart(b))
				for ci := (bi*7 + int(c.Idx) + int(vt.Seed())) % pstride; ci < len(PU); ci += pstride {
					cc := w.partDesc(PU[ci][0], PU[ci][1])
					run.EvalH(vt.Mix(ha, hb, vt.Hash64(canonPart(cc)), 5), true)
					k.triple(a, b, cc)
				}
			}
		})
	}

	// random larger descriptors: update sets delivered in any order / grouping / multiplicity
	run.ForEach("delivery-inst", vt.N(3000, 40000), func(c vt.CaseID, rng *rand.Rand, s *vt.Slot) {
		deliveryInst(run, c, rng)
	})
	run.ForEach("delivery-part", vt.N(3000, 40000), func(c vt.CaseID, rng *rand.Rand, s *vt.Slot) {
		deliveryPart(run, c, rng)
	})
	run.Finish(t)
}

// deliveryInst: a set of updates over up to 30 entries; content is a function of
// (id, ts, removed); incoming operands may be unsorted / contain duplicate tokens.
func deliveryInst(run *vt.Run, c vt.CaseID, rng *rand.Rand) {
	nIDs := 1 + rng.IntN(30)
	maxTS := 1 + rng.IntN(6)
	type key struct {
		id  int
		ts  int
		rem bool
	}
	content := map[key]ring.InstanceDesc{}
	get := func(k key) ring.InstanceDesc {
		if e, ok := content[k]; ok {
			return e
		}
		id := fmt.Sprintf("i%02d", k.id)
		e := ring.InstanceDesc{Id: id, Addr: id, Timestamp: int64(k.ts), Zone: fmt.Sprintf("z%d", rng.IntN(3)), RegisteredTimestamp: int64(rng.IntN(3))}
		if k.rem {
			e.State = ring.LEFT
		} else {
			e.State = ring.InstanceState(rng.IntN(4))
			for n := rng.IntN(5); n > 0; n-- {
				e.Tokens = append(e.Tokens, uint32(k.id*1000+rng.IntN(20)))
			}
			sort.Slice(e.Tokens, func(i, j int) bool { return e.Tokens[i] < e.Tokens[j] })
			// dedupe (the content itself is normalised; deliveries may scramble it)
			out := e.Tokens[:0]
			for i, t := range e.Tokens {
				if i == 0 || t != e.Tokens[i-1] {
					out = append(out, t)
				}
			}
			e.Tokens = out
		}
		content[k] = e
		return e
	}
	nUpd := 1 + rng.IntN(12)
	updates := make([]*ring.Desc, nUpd)
	for u := range updates {
		d := ring.NewDesc()
		for n := 1 + rng.IntN(6); n > 0; n-- {
			k := key{rng.IntN(nIDs), 1 + rng.IntN(maxTS), rng.IntN(5) == 0}
			e := get(k)
			d.Ingesters[e.Id] = e
		}
		updates[u] = d
	}
	scramble := func(d *ring.Desc) *ring.Desc {
		o := ring.NewDesc()
		for k, v := range d.Ingesters {
			tk := append([]uint32(nil), v.Tokens...)
			if len(tk) > 1 && rng.IntN(2) == 0 {
				rng.Shuffle(len(tk), func(i, j int) { tk[i], tk[j] = tk[j], tk[i] })
			}
			if len(tk) > 0 && rng.IntN(3) == 0 {
				tk = append(tk, tk[rng.IntN(len(tk))])
			}
			v.Tokens = tk
			o.Ingesters[k] = v
		}
		return o
	}
	nRep := 3 + rng.IntN(3)
	var finals []string
	var orders [][]int
	for r := 0; r < nRep; r++ {
		rep := ring.NewDesc()
		order := rng.Perm(nUpd)
		// duplication
		for d := rng.IntN(4); d > 0; d-- {
			order = append(order, rng.IntN(nUpd))
		}
		rng.Shuffle(len(order), func(i, j int) { order[i], order[j] = order[j], order[i] })
		orders = append(orders, order)
		for i := 0; i < len(order); i++ {
			in := scramble(updates[order[i]])
			// regrouping: pre-merge the next update into this one
			if i+1 < len(order) && rng.IntN(3) == 0 {
				pre := ring.NewDesc()
				pre.Merge(in, false)
				pre.Merge(scramble(updates[order[i+1]]), false)
				in = pre
				i++
			}
			if _, err := rep.Merge(in, false); err != nil {
				run.Violation(c, "instance-ring/merge-error", "Merge returned an error", map[string]any{"err": err.Error()})
			}
			if !tokensNormalised(rep) {
				run.Violation(c, "instance-ring/receiver-not-normalised", "receiver token lists not sorted/deduplicated after Merge of an unnormalised operand", map[string]any{"state": canonInst(rep)})
			}
		}
		finals = append(finals, canonInst(rep))
	}
	run.EvalH(vt.Mix(vt.Hash64(finals[0]), uint64(nUpd), 6), nUpd > 1)
	for r := 1; r < nRep; r++ {
		if finals[r] != finals[0] {
			var us []string
			for _, u := range updates {
				us = append(us, canonInst(u))
			}
			run.Violation(c, "instance-ring/replicas-diverge", "replicas that received the same update set in different order/grouping/multiplicity differ", map[string]any{"updates": us, "orders": orders, "replica0": finals[0], fmt.Sprintf("replica%d", r): finals[r]})
			break
		}
	}
	if c.Idx == 7 {
		var us []string
		for _, u := range updates {
			us = append(us, canonInst(u))
		}
		run.Sample(map[string]any{"kind": "delivery", "updates": us, "orders": orders, "final": finals[0]})
	}
}

func deliveryPart(run *vt.Run, c vt.CaseID, rng *rand.Rand) {
	nP := 1 + rng.IntN(10)
	nO := rng.IntN(8)
	maxTS := 1 + rng.IntN(5)
	type pk struct {
		id, ts int
		del    bool
	}
	pstate := map[pk]ring.PartitionState{}
	type lk struct{ id, ts int }
	plock := map[lk]bool{}
	type ok struct {
		id, ts int
		del    bool
	}
	oown := map[ok]int32{}
	mkPart := func() ring.PartitionDesc {
		id := rng.IntN(nP)
		k := pk{id, 1 + rng.IntN(maxTS), rng.IntN(5) == 0}
		st, found := pstate[k]
		if !found {
			st = ring.PartitionState(1 + rng.IntN(3))
			if k.del {
				st = ring.PartitionDeleted
			}
			pstate[k] = st
		}
		p := ring.PartitionDesc{Id: int32(id), Tokens: []uint32{uint32(id*10 + 1), uint32(id*10 + 2)}, State: st, StateTimestamp: int64(k.ts)}
		if rng.IntN(2) == 0 {
			l := lk{id, 1 + rng.IntN(maxTS)}
			v, found := plock[l]
			if !found {
				v = rng.IntN(2) == 0
				plock[l] = v
			}
			p.StateChangeLocked, p.StateChangeLockedTimestamp = v, int64(l.ts)
		}
		return p
	}
	mkOwner := func() (string, ring.OwnerDesc) {
		id := rng.IntN(nO)
		k := ok{id, 1 + rng.IntN(maxTS), rng.IntN(5) == 0}
		own, found := oown[k]
		if !found {
			own = int32(rng.IntN(nP))
			oown[k] = own
		}
		o := ring.OwnerDesc{OwnedPartition: own, State: ring.OwnerActive, UpdatedTimestamp: int64(k.ts)}
		if k.del {
			o.State = ring.OwnerDeleted
		}
		return fmt.Sprintf("o%d", id), o
	}
	nUpd := 1 + rng.IntN(12)
	updates := make([]*ring.PartitionRingDesc, nUpd)
	for u := range updates {
		d := ring.NewPartitionRingDesc()
		for n := rng.IntN(5); n > 0; n-- {
			p := mkPart()
			d.Partitions[p.Id] = p
		}
		if nO > 0 {
			for n := rng.IntN(4); n > 0; n-- {
				id, o := mkOwner()
				d.Owners[id] = o
			}
		}
		updates[u] = d
	}
	nRep := 3 + rng.IntN(3)
	var finals []string
	var orders [][]int
	for r := 0; r < nRep; r++ {
		rep := ring.NewPartitionRingDesc()
		order := rng.Perm(nUpd)
		for d := rng.IntN(4); d > 0; d-- {
			order = append(order, rng.IntN(nUpd))
		}
		rng.Shuffle(len(order), func(i, j int) { order[i], order[j] = order[j], order[i] })
		orders = append(orders, order)
		for i := 0; i < len(order); i++ {
			in := updates[order[i]].Clone().(*ring.PartitionRingDesc)
			if i+1 < len(order) && rng.IntN(3) == 0 {
				pre := ring.NewPartitionRingDesc()
				pre.Merge(in, false)
				pre.Merge(updates[order[i+1]].Clone(), false)
				in = pre
				i++
			}
			rep.Merge(in, false)
		}
		finals = append(finals, canonPart(rep))
	}
	run.EvalH(vt.Mix(vt.Hash64(finals[0]), uint64(nUpd), 7), nUpd > 1)
	for r := 1; r < nRep; r++ {
		if finals[r] != finals[0] {
			var us []string
			for _, u := range updates {
				us = append(us, canonPart(u))
			}
			run.Violation(c, "partition-ring/replicas-diverge", "replicas that received the same update set in different order/grouping/multiplicity differ", map[string]any{"updates": us, "orders": orders, "replica0": finals[0], fmt.Sprintf("replica%d", r): finals[r]})
			break
		}
	}
}
