package c14

import (
	"fmt"
	"math"
	"math/rand/v2"
	"sort"
	"testing"
	"testing/synctest"
	"time"

	"github.com/grafana/dskit/ring"

	"verifharness/rk"
	"verifharness/spec"
	"verifharness/vt"
)

const maxTok = math.MaxUint32

var alpha = []uint32{0, 1, 2, maxTok - 2, maxTok - 1, maxTok}

// assignments of the 6-token alphabet to {nobody, o1, o2, o3}, at most 3 tokens per owner.
func assignments() [][]int {
	var out [][]int
	cur := make([]int, len(alpha))
	var rec func(i int, cnt [4]int)
	rec = func(i int, cnt [4]int) {
		if i == len(alpha) {
			out = append(out, append([]int(nil), cur...))
			return
		}
		for o := 0; o < 4; o++ {
			if o > 0 && cnt[o] >= 3 {
				continue
			}
			cur[i] = o
			c2 := cnt
			c2[o]++
			rec(i+1, c2)
		}
	}
	rec(0, [4]int{})
	return out
}

func keysFor(tokens []uint32, rng *rand.Rand, extra int) []uint32 {
	set := map[uint32]bool{0: true, 1: true, maxTok: true, maxTok - 1: true}
	for _, t := range tokens {
		set[t], set[t-1], set[t+1] = true, true, true
	}
	for _, t := range alpha {
		set[t], set[t-1], set[t+1] = true, true, true
	}
	for i := 0; i < extra; i++ {
		set[rng.Uint32()] = true
	}
	ks := make([]uint32, 0, len(set))
	for k := range set {
		ks = append(ks, k)
	}
	if len(ks) > 600 {
		// large layouts: a seeded sample of the boundary keys (alphabet keys always kept)
		sort.Slice(ks, func(i, j int) bool { return ks[i] < ks[j] })
		rng.Shuffle(len(ks), func(i, j int) { ks[i], ks[j] = ks[j], ks[i] })
		ks = ks[:600]
		for _, t := range alpha {
			ks = append(ks, t, t-1, t+1)
		}
		m := map[uint32]bool{}
		out := ks[:0]
		for _, k := range ks {
			if !m[k] {
				m[k] = true
				out = append(out, k)
			}
		}
		ks = out
	}
	sort.Slice(ks, func(i, j int) bool { return ks[i] < ks[j] })
	return ks
}

func classOfKey(k uint32, toks map[uint32]bool) string {
	switch {
	case toks[k]:
		return "key=token"
	case toks[k+1]:
		return "key=token-1"
	case toks[k-1]:
		return "key=token+1"
	}
	return "other"
}

// ---- instance ring ---------------------------------------------------------

func checkInstanceRing(t *testing.T, run *vt.Run, c vt.CaseID, rng *rand.Rand, insts map[string]spec.Inst, zones int, extraKeys int) {
	synctest.Test(t, func(t *testing.T) {
		now := time.Now().Unix()
		for id, in := range insts {
			in.Heartbeat = now
			in.State = spec.ACTIVE
			insts[id] = in
		}
		st := rk.NewStore()
		st.RecordGets = false
		desc := rk.Desc(insts)
		if rng.IntN(3) == 0 {
			// the stored token lists need not be sorted (descriptors written by older versions): the ring client
			// sorts what it loads; ranges and lookups must agree all the same
			for id, e := range desc.Ingesters {
				rng.Shuffle(len(e.Tokens), func(i, j int) { e.Tokens[i], e.Tokens[j] = e.Tokens[j], e.Tokens[i] })
				desc.Ingesters[id] = e
			}
			run.Count("layouts_stored_with_unsorted_token_lists", 1)
		}
		st.Put("harness", rk.Key, desc)
		r, stop, err := rk.StartRing(rk.Cfg(zones, true, time.Minute), st.Client("ring"), rk.Key)
		if err != nil {
			run.Inconclusive("ring start: " + err.Error())
			return
		}
		defer stop()
		var all []uint32
		tokset := map[uint32]bool{}
		for _, in := range insts {
			all = append(all, in.Tokens...)
			for _, tk := range in.Tokens {
				tokset[tk] = true
			}
		}
		keys := keysFor(all, rng, extraKeys)
		ids := make([]string, 0, len(insts))
		for id := range insts {
			ids = append(ids, id)
		}
		sort.Strings(ids)
		compare := func(rr ring.ReadRing, ids []string, label string, what string) bool {
			member := map[string]bool{}
			for _, id := range ids {
				member[id] = true
			}
			_ = what
			ranges := map[string]ring.TokenRanges{}
			rangeErr := map[string]error{}
			for _, id := range ids {
				var tr ring.TokenRanges
				var e error
				p, stack := vt.Recover(func() { tr, e = rr.GetTokenRangesForInstance(id) })
				if p != nil {
					run.Violation(c, label+"/panic", "GetTokenRangesForInstance panicked", map[string]any{"insts": insts, "instance": id, "panic": fmt.Sprint(p), "stack": stack})
					return false
				}
				ranges[id], rangeErr[id] = tr, e
				// structural: even length, sorted
				if e == nil {
					if len(tr)%2 != 0 || !sort.SliceIsSorted(tr, func(i, j int) bool { return tr[i] < tr[j] }) {
						run.Violation(c, label+"/malformed", "token ranges not a sorted list of [start,end] pairs", map[string]any{"insts": insts, "instance": id, "ranges": tr})
					}
				}
			}
			sampled := false
			lsig := vt.Hash64(fmt.Sprint(insts))
			for _, k := range keys {
				rs, err := rr.Get(k, ring.WriteNoExtend, nil, nil, nil)
				if err != nil {
					run.Violation(c, label+"/lookup-failed", "lookup failed on an all-active ring with zones = RF", map[string]any{"insts": insts, "key": k, "err": err.Error()})
					continue
				}
				owners := map[string]bool{}
				for _, i := range rs.Instances {
					owners[i.Id] = true
				}
				perZone := map[string]int{}
				for _, id := range ids {
					in := insts[id]
					zoneToks := 0
					for oid, o := range insts {
						if o.Zone == in.Zone && member[oid] {
							zoneToks += len(o.Tokens)
						}
					}
					if rangeErr[id] != nil {
						// "no tokens for zone" is the only legitimate refusal here
						if zoneToks > 0 {
							run.Violation(c, label+"/unexpected-error", "GetTokenRangesForInstance failed on a zone-aware ring with zones = RF", map[string]any{"insts": insts, "instance": id, "err": rangeErr[id].Error()})
						}
						continue
					}
					inc := ranges[id].IncludesKey(k)
					cls := classOfKey(k, tokset)
					run.EvalH(vt.Mix(lsig, vt.Hash64(id), uint64(k)), cls != "other" || k == 0 || k == maxTok)
					if inc {
						perZone[in.Zone]++
					}
					if inc != owners[id] {
						kind := "range-includes-key-not-owned"
						if !inc {
							kind = "owned-key-missing-from-ranges"
						}
						sig := fmt.Sprintf("%s/%s", label, kind)
						run.Violation(c, sig, fmt.Sprintf("GetTokenRangesForInstance(%s).IncludesKey(%d)=%v but Ring.Get assigns the key to %v", id, k, inc, rk.IDs(rs)), map[string]any{
							"insts": insts, "zones": zones, "instance": id, "key": k, "ranges": ranges[id], "lookup": rk.IDs(rs), "key_class": cls})
					}
					if !sampled && run.WantSample() && len(in.Tokens) > 0 {
						sampled = true
						run.Sample(map[string]any{"kind": "instance", "insts": insts, "instance": id, "ranges": ranges[id], "key": k, "includes": inc, "lookup": rk.IDs(rs)})
					}
				}
				for z, n := range perZone {
					if n > 1 {
						run.Violation(c, label+"/overlap", "a key is in the ranges of two instances of one zone", map[string]any{"insts": insts, "key": k, "zone": z})
					}
				}
			}
			return true
		}
		if !compare(r, ids, "instance-ranges", "ring") {
			return
		}
		// the same on derived rings: shuffle-shard subrings are rebuilt from per-zone token lists by a different
		// merge, and report ranges / serve lookups like any ring
		for q := 0; q < 3; q++ {
			tenant := fmt.Sprintf("tenant-%d", rng.IntN(50))
			size := zones * (1 + rng.IntN(3))
			var sub ring.ReadRing
			if p, stack := vt.Recover(func() { sub = r.ShuffleShard(tenant, size) }); p != nil {
				run.Violation(c, "subring-ranges/panic", "ShuffleShard panicked", map[string]any{"insts": insts, "panic": fmt.Sprint(p), "stack": stack})
				return
			}
			rs, err := sub.GetAllHealthy(ring.Reporting)
			if err != nil {
				continue
			}
			sids := rk.IDs(rs)
			sort.Strings(sids)
			if !compare(sub, sids, "subring-ranges", fmt.Sprintf("ShuffleShard(%s,%d)", tenant, size)) {
				return
			}
		}
	})
}

// ---- partition ring --------------------------------------------------------

func checkPartitionRing(run *vt.Run, c vt.CaseID, rng *rand.Rand, parts map[int32][]uint32, extraKeys int) {
	desc := ring.NewPartitionRingDesc()
	var all []uint32
	tokset := map[uint32]bool{}
	for id, toks := range parts {
		desc.Partitions[id] = ring.PartitionDesc{Id: id, Tokens: append([]uint32(nil), toks...), State: ring.PartitionActive, StateTimestamp: 1}
		all = append(all, toks...)
		for _, tk := range toks {
			tokset[tk] = true
		}
	}
	pr, err := ring.NewPartitionRing(*desc)
	if err != nil {
		run.Violation(c, "partition-ranges/ring-build-failed", "NewPartitionRing failed", map[string]any{"parts": parts, "err": err.Error()})
		return
	}
	ids := make([]int32, 0, len(parts))
	for id := range parts {
		ids = append(ids, id)
	}
	sort.Slice(ids, func(i, j int) bool { return ids[i] < ids[j] })
	ranges := map[int32]ring.TokenRanges{}
	for _, id := range ids {
		var tr ring.TokenRanges
		var e error
		p, stack := vt.Recover(func() { tr, e = pr.GetTokenRangesForPartition(id) })
		if p != nil || e != nil {
			if len(parts[id]) == 0 && p == nil {
				continue
			}
			run.Violation(c, "partition-ranges/error-or-panic", "GetTokenRangesForPartition failed", map[string]any{"parts": parts, "partition": id, "err": fmt.Sprint(e), "panic": fmt.Sprint(p), "stack": stack})
			return
		}
		ranges[id] = tr
		if len(tr)%2 != 0 || !sort.SliceIsSorted(tr, func(i, j int) bool { return tr[i] < tr[j] }) {
			run.Violation(c, "partition-ranges/malformed", "token ranges not a sorted list of [start,end] pairs", map[string]any{"parts": parts, "partition": id, "ranges": tr})
		}
	}
	sampled := false
	lsig := vt.Hash64(fmt.Sprint(parts))
	for _, k := range keysFor(all, rng, extraKeys) {
		owner, err := pr.ActivePartitionForKey(k)
		if err != nil {
			if len(all) > 0 {
				run.Violation(c, "partition-ranges/lookup-failed", "ActivePartitionForKey failed on an all-active ring", map[string]any{"parts": parts, "key": k, "err": err.Error()})
			}
			continue
		}
		n := 0
		for _, id := range ids {
			tr, ok := ranges[id]
			if !ok {
				continue
			}
			inc := tr.IncludesKey(k)
			cls := classOfKey(k, tokset)
			run.EvalH(vt.Mix(lsig, uint64(id)+77, uint64(k)), cls != "other" || k == 0 || k == maxTok)
			if inc {
				n++
			}
			if inc != (owner == id) {
				kind := "range-includes-key-not-owned"
				if !inc {
					kind = "owned-key-missing-from-ranges"
				}
				run.Violation(c, "partition-ranges/"+kind, fmt.Sprintf("GetTokenRangesForPartition(%d).IncludesKey(%d)=%v but ActivePartitionForKey=%d", id, k, inc, owner), map[string]any{
					"parts": parts, "partition": id, "key": k, "ranges": tr, "lookup": owner, "key_class": cls})
			}
			if !sampled && run.WantSample() {
				sampled = true
				run.Sample(map[string]any{"kind": "partition", "parts": parts, "partition": id, "ranges": tr, "key": k, "includes": inc, "lookup": owner})
			}
		}
		if n != 1 {
			run.Violation(c, "partition-ranges/not-a-tiling", fmt.Sprintf("key %d is in the ranges of %d partitions", k, n), map[string]any{"parts": parts, "key": k, "ranges": ranges})
		}
	}
}

func TestC14(t *testing.T) {
	run := vt.NewRun("C14", "exploration")
	run.SetRule("case = (ring layout, owner, key): TokenRanges.IncludesKey(key) compared with the real lookup (Ring.Get(WriteNoExtend) on a zone-aware all-active ring with zones = RF; PartitionRing.ActivePartitionForKey on an all-active partition ring); non-trivial = key is a token, token-1, token+1, 0 or 2^32-1; distinct by (layout, owner, key). Layouts: every assignment of {0,1,2,2^32-3..2^32-1} to <=3 owners x <=3 tokens (exhaustive), plus random layouts up to 64 owners x 128 tokens.")
	assigns := assignments()
	run.SetExtra("small_universe_layouts", len(assigns))
	run.SetExtra("small_universe_enumerated_completely", true)

	run.ForEach("part-small", len(assigns), func(c vt.CaseID, rng *rand.Rand, s *vt.Slot) {
		a := assigns[c.Idx]
		parts := map[int32][]uint32{}
		for ti, o := range a {
			if o > 0 {
				parts[int32(o-1)] = append(parts[int32(o-1)], alpha[ti])
			}
		}
		if len(parts) == 0 {
			return
		}
		checkPartitionRing(run, c, rng, parts, 2)
	})

	run.ForEach("part-rand", vt.N(300, 20000), func(c vt.CaseID, rng *rand.Rand, s *vt.Slot) {
		np := 1 + rng.IntN(64)
		used := map[uint32]bool{}
		parts := map[int32][]uint32{}
		gen := rng.IntN(4) == 0
		if gen {
			d := ring.NewPartitionRingDesc()
			for i := 0; i < np; i++ {
				d.AddPartition(int32(i), ring.PartitionActive, time.Unix(1, 0))
				parts[int32(i)] = d.Partitions[int32(i)].Tokens
			}
		} else {
			for i := 0; i < np; i++ {
				nt := 1 + rng.IntN(128)
				if rng.IntN(3) == 0 {
					nt = 1 + rng.IntN(3)
				}
				var toks []uint32
				for len(toks) < nt {
					tk := rng.Uint32()
					if rng.IntN(10) == 0 {
						tk = alpha[rng.IntN(len(alpha))]
					}
					if !used[tk] {
						used[tk] = true
						toks = append(toks, tk)
					}
				}
				sort.Slice(toks, func(a, b int) bool { return toks[a] < toks[b] })
				parts[int32(i)] = toks
			}
		}
		// probe a bounded number of boundary keys on big layouts
		checkPartitionRing(run, c, rng, parts, 8)
	})

	run.ForEachT(t, "inst-small", len(assigns)*3, func(t *testing.T, c vt.CaseID, rng *rand.Rand, s *vt.Slot) {
		a := assigns[int(c.Idx)%len(assigns)]
		zones := 1 + int(c.Idx)/len(assigns)
		insts := map[string]spec.Inst{}
		used := map[uint32]bool{}
		for ti, o := range a {
			if o > 0 {
				id := fmt.Sprintf("a%d", o)
				in := insts[id]
				in.ID, in.Zone = id, "z0"
				in.Tokens = append(in.Tokens, alpha[ti])
				insts[id] = in
				used[alpha[ti]] = true
			}
		}
		if len(insts) == 0 {
			return
		}
		// other zones: populated from what is left of the alphabet plus random tokens
		for z := 1; z < zones; z++ {
			no := 1 + rng.IntN(2)
			for o := 0; o < no; o++ {
				id := fmt.Sprintf("%c%d", 'a'+z, o)
				var toks []uint32
				for n := 1 + rng.IntN(3); len(toks) < n; {
					tk := rng.Uint32()
					if rng.IntN(2) == 0 {
						tk = alpha[rng.IntN(len(alpha))]
					}
					if !used[tk] {
						used[tk] = true
						toks = append(toks, tk)
					}
				}
				sort.Slice(toks, func(a, b int) bool { return toks[a] < toks[b] })
				insts[id] = spec.Inst{ID: id, Zone: fmt.Sprintf("z%d", z), Tokens: toks}
			}
		}
		s.Enter(c, "crash/inst-small")
		checkInstanceRing(t, run, c, rng, insts, zones, 2)
		s.Leave()
	})

	run.ForEachT(t, "inst-rand", vt.N(120, 8000), func(t *testing.T, c vt.CaseID, rng *rand.Rand, s *vt.Slot) {
		zones := 1 + rng.IntN(3)
		insts := map[string]spec.Inst{}
		used := map[uint32]bool{}
		for z := 0; z < zones; z++ {
			no := 1 + rng.IntN(22)
			for o := 0; o < no; o++ {
				id := fmt.Sprintf("%c%d", 'a'+z, o)
				nt := 1 + rng.IntN(128)
				if rng.IntN(3) == 0 {
					nt = rng.IntN(3) // includes token-less instances
				}
				var toks []uint32
				for len(toks) < nt {
					tk := rng.Uint32()
					if rng.IntN(10) == 0 {
						tk = alpha[rng.IntN(len(alpha))]
					}
					if !used[tk] {
						used[tk] = true
						toks = append(toks, tk)
					}
				}
				sort.Slice(toks, func(a, b int) bool { return toks[a] < toks[b] })
				insts[id] = spec.Inst{ID: id, Zone: fmt.Sprintf("z%d", z), Tokens: toks}
			}
		}
		// every zone needs at least one token for the lookup side to be defined
		for z := 0; z < zones; z++ {
			zn := fmt.Sprintf("z%d", z)
			has := false
			for _, in := range insts {
				if in.Zone == zn && len(in.Tokens) > 0 {
					has = true
				}
			}
			if !has {
				return
			}
		}
		s.Enter(c, "crash/inst-rand")
		checkInstanceRing(t, run, c, rng, insts, zones, 6)
		s.Leave()
	})
	run.Finish(t)
}
