// Package spec holds the small executable specifications the monitors compare
// the real code against. They are written from the property statements, are
// sequential and allocation-happy, and deliberately do not share structure with
// the implementation (no binary search, no per-zone counters, no caches).
package spec

import "sort"

// Inst is what the specification knows about a ring instance.
type Inst struct {
	ID        string
	Zone      string
	Tokens    []uint32
	State     int   // 0 ACTIVE 1 LEAVING 2 PENDING 3 JOINING 4 LEFT
	Heartbeat int64 // unix seconds
}

const (
	ACTIVE = iota
	LEAVING
	PENDING
	JOINING
	LEFT
)

// Op is an operation as documented: which states may answer, which extend.
type Op struct {
	Name    string
	Healthy [5]bool
	Extend  [5]bool
}

var (
	OpWrite         = Op{"Write", [5]bool{ACTIVE: true}, [5]bool{LEAVING: true, PENDING: true, JOINING: true, LEFT: true}}
	OpWriteNoExtend = Op{"WriteNoExtend", [5]bool{ACTIVE: true}, [5]bool{}}
	OpRead          = Op{"Read", [5]bool{ACTIVE: true, PENDING: true, LEAVING: true}, [5]bool{PENDING: true, JOINING: true, LEFT: true}}
	OpReporting     = Op{"Reporting", [5]bool{true, true, true, true, true}, [5]bool{}}
)

type tokOwner struct {
	tok   uint32
	owner string
}

// Circle returns the (token, owner) pairs sorted by token.
func Circle(insts map[string]Inst) []tokOwner {
	var c []tokOwner
	for id, in := range insts {
		for _, t := range in.Tokens {
			c = append(c, tokOwner{t, id})
		}
	}
	sort.Slice(c, func(i, j int) bool {
		if c[i].tok != c[j].tok {
			return c[i].tok < c[j].tok
		}
		return c[i].owner < c[j].owner
	})
	return c
}

// Walk returns the ids of the walked set for key, in walk order.
func Walk(insts map[string]Inst, key uint32, rf int, zoneAware bool, op Op) []string {
	c := Circle(insts)
	if len(c) == 0 {
		return nil
	}
	// first token strictly greater than key; wrap to the smallest.
	start := 0
	found := false
	for i, e := range c {
		if e.tok > key {
			start, found = i, true
			break
		}
	}
	if !found {
		start = 0
	}
	need := rf
	taken := map[string]bool{}
	zoneDone := map[string]bool{}
	var out []string
	limit := func() int {
		if need < len(insts) {
			return need
		}
		return len(insts)
	}
	for k := 0; k < len(c) && len(out) < limit(); k++ {
		e := c[(start+k)%len(c)]
		in := insts[e.owner]
		if taken[e.owner] {
			continue
		}
		if zoneAware && in.Zone != "" && zoneDone[in.Zone] {
			continue
		}
		taken[e.owner] = true
		out = append(out, e.owner)
		if op.Extend[in.State] {
			need++
		} else if zoneAware && in.Zone != "" {
			zoneDone[in.Zone] = true
		}
	}
	return out
}

// Quorum decides a lookup from the walked set: the healthy members, whether it
// fails, and the tolerated errors.
func Quorum(insts map[string]Inst, walked []string, rf int, op Op, now int64, timeoutSec int64) (healthy []string, maxErrors int, fails bool) {
	return QuorumAt(insts, walked, rf, op, now*1000, timeoutSec*1000)
}

// QuorumAt is Quorum with the query instant and the timeout in milliseconds (heartbeats are whole seconds).
func QuorumAt(insts map[string]Inst, walked []string, rf int, op Op, nowMs int64, timeoutMs int64) (healthy []string, maxErrors int, fails bool) {
	for _, id := range walked {
		in := insts[id]
		if op.Healthy[in.State] && nowMs-in.Heartbeat*1000 <= timeoutMs {
			healthy = append(healthy, id)
		}
	}
	n := rf
	if len(walked) > n {
		n = len(walked)
	}
	majority := n/2 + 1
	if len(healthy) < majority {
		return nil, 0, true
	}
	return healthy, len(healthy) - majority, false
}

// OwnerOfKey returns the owner of the first token strictly greater than key
// (wrapping), among instances for which keep returns true ("" if none).
func OwnerOfKey(insts map[string]Inst, key uint32, keep func(Inst) bool) string {
	sub := map[string]Inst{}
	for id, in := range insts {
		if keep == nil || keep(in) {
			sub[id] = in
		}
	}
	c := Circle(sub)
	if len(c) == 0 {
		return ""
	}
	for _, e := range c {
		if e.tok > key {
			return e.owner
		}
	}
	return c[0].owner
}

// HealthyAt returns the members of walked that the operation accepts and whose heartbeat is not older than the
// timeout at the instant nowMs - the part of QuorumAt that does not depend on any quorum rule.
func HealthyAt(insts map[string]Inst, walked []string, op Op, nowMs int64, timeoutMs int64) (healthy []string) {
	for _, id := range walked {
		in := insts[id]
		if op.Healthy[in.State] && nowMs-in.Heartbeat*1000 <= timeoutMs {
			healthy = append(healthy, id)
		}
	}
	return healthy
}
