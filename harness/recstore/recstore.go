// Package recstore is a linearizable in-memory kv.Client that records every
// version ever written together with the identity of its writer, and can inject
// faults and "crashes" (a crashed handle's goroutine is parked at the chosen
// write boundary until the store is released, and everything that incarnation
// does afterwards is rejected without effect).
package recstore

import (
	"context"
	"errors"
	"fmt"
	"strings"
	"sync"
	"time"

	"github.com/grafana/dskit/kv/codec"
)

var ErrInjected = errors.New("recstore: injected fault")
var ErrAckLost = errors.New("recstore: injected fault: the write was applied but its acknowledgement was lost")
var ErrDead = errors.New("recstore: incarnation is dead")
var ErrTooManyRetries = errors.New("recstore: failed to CAS (too many conflicts)")

// Version is one committed value of a key.
type Version struct {
	Key     string
	N       int // 1-based version number of this key; 0 = absent
	Writer  string
	Bytes   []byte // nil = deleted
	At      time.Time
	Seq     int64
	Deleted bool
	// In is the version number the writer's function was given.
	InN int
}

// Attempt is one CAS attempt (one call of f).
type Attempt struct {
	Writer    string
	Key       string
	InN       int
	Committed bool
	Declined  bool // f returned nil value and nil error
	Err       string
	OutN      int
	At        time.Time
	Seq       int64
}

type GetEvent struct {
	Writer string
	Key    string
	N      int
	At     time.Time
	Seq    int64
	Err    bool
}

type keyState struct {
	bytes []byte
	n     int
}

type Store struct {
	mu       sync.Mutex
	codec    codec.Codec
	keys     map[string]*keyState
	changed  chan struct{}
	seq      int64
	Versions []Version
	Attempts []Attempt
	Gets     []GetEvent
	released chan struct{}
	relOnce  sync.Once
	// RecordGets can be disabled for long runs.
	RecordGets bool
}

func New(c codec.Codec) *Store {
	return &Store{codec: c, keys: map[string]*keyState{}, changed: make(chan struct{}), released: make(chan struct{}), RecordGets: true}
}

// Release un-parks every crashed incarnation (their calls return ErrDead).
func (s *Store) Release() { s.relOnce.Do(func() { close(s.released) }) }

// Fault plan of a handle.
type Faults struct {
	// FailGets / FailCAS: predicate on the 1-based ordinal of the call by this handle.
	FailGet func(n int) bool
	FailCAS func(n int) bool
	// LoseAck: predicate on the ordinal of the CAS call, like FailCAS, but the call runs normally and, if it commits,
	// the caller is told it failed (the write was applied, its acknowledgement was lost).
	LoseAck func(n int) bool
	// Conflict: predicate on the ordinal of the CAS attempt: pretend a concurrent
	// writer won (forces the retry path) -- at most MaxConflicts in a row.
	Conflict func(n int) bool
	// BeforeCommit, when set, runs after the CAS function has produced a value and before the commit is attempted
	// (argument: ordinal of the attempt by this handle). A harness uses it to let another writer commit in that
	// window, which makes the attempt fail with a real conflict.
	BeforeCommit func(n int)
	// CrashAtWrite k (1-based count of commits by this handle), 0 = never.
	CrashAtWrite int
	CrashBefore  bool
}

type Handle struct {
	s      *Store
	Writer string

	mu        sync.Mutex
	F         Faults
	gets      int
	cass      int
	attempts  int
	commits   int
	dead      bool
	Crashed   chan struct{} // closed when the crash point is reached
	crashOnce sync.Once
}

func (s *Store) Client(writer string) *Handle {
	return &Handle{s: s, Writer: writer, Crashed: make(chan struct{})}
}

func (h *Handle) SetFaults(f Faults) { h.mu.Lock(); h.F = f; h.mu.Unlock() }
func (h *Handle) Kill()              { h.mu.Lock(); h.dead = true; h.mu.Unlock() }
func (h *Handle) Commits() int       { h.mu.Lock(); defer h.mu.Unlock(); return h.commits }
func (h *Handle) IsDead() bool       { h.mu.Lock(); defer h.mu.Unlock(); return h.dead }

func (h *Handle) park(ctx context.Context) error {
	h.mu.Lock()
	h.dead = true
	h.mu.Unlock()
	h.crashOnce.Do(func() { close(h.Crashed) })
	<-h.s.released
	return ErrDead
}

func (s *Store) nextSeq() int64 { s.seq++; return s.seq }

func (s *Store) decode(b []byte) (interface{}, error) {
	if b == nil {
		return nil, nil
	}
	return s.codec.Decode(b)
}

func (h *Handle) List(ctx context.Context, prefix string) ([]string, error) {
	if h.IsDead() {
		return nil, ErrDead
	}
	h.s.mu.Lock()
	defer h.s.mu.Unlock()
	var out []string
	for k, v := range h.s.keys {
		if v.bytes != nil && strings.HasPrefix(k, prefix) {
			out = append(out, k)
		}
	}
	return out, nil
}

func (h *Handle) Get(ctx context.Context, key string) (interface{}, error) {
	v, _, err := h.GetVersion(ctx, key)
	return v, err
}

// GetVersion is Get plus the version number that was served.
func (h *Handle) GetVersion(ctx context.Context, key string) (interface{}, int, error) {
	h.mu.Lock()
	if h.dead {
		h.mu.Unlock()
		return nil, 0, ErrDead
	}
	h.gets++
	n := h.gets
	fail := h.F.FailGet != nil && h.F.FailGet(n)
	h.mu.Unlock()
	s := h.s
	s.mu.Lock()
	var b []byte
	ver := 0
	if ks := s.keys[key]; ks != nil {
		b, ver = ks.bytes, ks.n
	}
	if s.RecordGets {
		s.Gets = append(s.Gets, GetEvent{Writer: h.Writer, Key: key, N: ver, At: time.Now(), Seq: s.nextSeq(), Err: fail})
	}
	s.mu.Unlock()
	if fail {
		return nil, 0, ErrInjected
	}
	v, err := s.decode(b)
	return v, ver, err
}

func (h *Handle) Delete(ctx context.Context, key string) error {
	if h.IsDead() {
		return ErrDead
	}
	s := h.s
	s.mu.Lock()
	ks := s.keys[key]
	if ks != nil && ks.bytes != nil {
		in := ks.n
		ks.bytes = nil
		ks.n++
		s.Versions = append(s.Versions, Version{Key: key, N: ks.n, Writer: h.Writer, At: time.Now(), Seq: s.nextSeq(), Deleted: true, InN: in})
		s.broadcast()
	}
	s.mu.Unlock()
	return nil
}

// Wipe deletes the key on behalf of "the environment".
func (s *Store) Wipe(key string) {
	h := s.Client("<wipe>")
	_ = h.Delete(context.Background(), key)
}

func (s *Store) broadcast() {
	close(s.changed)
	s.changed = make(chan struct{})
}

const maxRetries = 10

func (h *Handle) CAS(ctx context.Context, key string, f func(in interface{}) (out interface{}, retry bool, err error)) error {
	h.mu.Lock()
	if h.dead {
		h.mu.Unlock()
		return ErrDead
	}
	h.cass++
	n := h.cass
	fail := h.F.FailCAS != nil && h.F.FailCAS(n)
	loseAck := !fail && h.F.LoseAck != nil && h.F.LoseAck(n)
	h.mu.Unlock()
	if fail {
		return ErrInjected
	}
	s := h.s
	var lastErr error
	for try := 0; try < maxRetries; try++ {
		if err := ctx.Err(); err != nil {
			return err
		}
		if h.IsDead() {
			return ErrDead
		}
		s.mu.Lock()
		var b []byte
		ver := 0
		if ks := s.keys[key]; ks != nil {
			b, ver = ks.bytes, ks.n
		}
		s.mu.Unlock()
		in, err := s.decode(b)
		if err != nil {
			return err
		}
		out, retry, err := f(in)
		h.mu.Lock()
		h.attempts++
		an := h.attempts
		conflict := h.F.Conflict != nil && h.F.Conflict(an)
		h.mu.Unlock()
		if err != nil {
			s.mu.Lock()
			s.Attempts = append(s.Attempts, Attempt{Writer: h.Writer, Key: key, InN: ver, Err: err.Error(), At: time.Now(), Seq: s.nextSeq()})
			s.mu.Unlock()
			if !retry {
				return err
			}
			lastErr = err
			continue
		}
		if out == nil {
			s.mu.Lock()
			s.Attempts = append(s.Attempts, Attempt{Writer: h.Writer, Key: key, InN: ver, Declined: true, At: time.Now(), Seq: s.nextSeq()})
			s.mu.Unlock()
			return nil
		}
		nb, err := s.codec.Encode(out)
		if err != nil {
			return err
		}
		h.mu.Lock()
		hook := h.F.BeforeCommit
		h.mu.Unlock()
		if hook != nil {
			hook(an)
		}
		// crash point "before the commit of the k-th write"
		h.mu.Lock()
		crashBefore := h.F.CrashAtWrite > 0 && h.commits+1 == h.F.CrashAtWrite && h.F.CrashBefore
		crashAfter := h.F.CrashAtWrite > 0 && h.commits+1 == h.F.CrashAtWrite && !h.F.CrashBefore
		h.mu.Unlock()
		if crashBefore && !conflict {
			return h.park(ctx)
		}
		s.mu.Lock()
		ks := s.keys[key]
		cur := 0
		if ks != nil {
			cur = ks.n
		}
		if cur != ver || conflict {
			s.Attempts = append(s.Attempts, Attempt{Writer: h.Writer, Key: key, InN: ver, Err: "conflict", At: time.Now(), Seq: s.nextSeq()})
			s.mu.Unlock()
			lastErr = ErrTooManyRetries
			continue
		}
		if ks == nil {
			ks = &keyState{}
			s.keys[key] = ks
		}
		ks.bytes = nb
		ks.n++
		sq := s.nextSeq()
		now := time.Now()
		s.Versions = append(s.Versions, Version{Key: key, N: ks.n, Writer: h.Writer, Bytes: nb, At: now, Seq: sq, InN: ver})
		s.Attempts = append(s.Attempts, Attempt{Writer: h.Writer, Key: key, InN: ver, Committed: true, OutN: ks.n, At: now, Seq: sq})
		s.broadcast()
		s.mu.Unlock()
		h.mu.Lock()
		h.commits++
		h.mu.Unlock()
		if crashAfter {
			return h.park(ctx)
		}
		if loseAck {
			return ErrAckLost
		}
		return nil
	}
	if lastErr == nil {
		lastErr = ErrTooManyRetries
	}
	return fmt.Errorf("recstore CAS %s: %w", key, lastErr)
}

func (h *Handle) WatchKey(ctx context.Context, key string, f func(interface{}) bool) {
	s := h.s
	last := -1
	for {
		s.mu.Lock()
		var b []byte
		ver := 0
		if ks := s.keys[key]; ks != nil {
			b, ver = ks.bytes, ks.n
		}
		ch := s.changed
		s.mu.Unlock()
		if h.IsDead() {
			<-ctx.Done()
			return
		}
		if ver != last && b != nil {
			last = ver
			v, err := s.decode(b)
			if err == nil && !f(v) {
				return
			}
			continue
		}
		last = ver
		select {
		case <-ctx.Done():
			return
		case <-ch:
		}
	}
}

func (h *Handle) WatchPrefix(ctx context.Context, prefix string, f func(string, interface{}) bool) {
	s := h.s
	last := map[string]int{}
	for {
		type kvv struct {
			k string
			b []byte
		}
		var todo []kvv
		s.mu.Lock()
		for k, ks := range s.keys {
			if strings.HasPrefix(k, prefix) && ks.n != last[k] {
				last[k] = ks.n
				if ks.bytes != nil {
					todo = append(todo, kvv{k, ks.bytes})
				}
			}
		}
		ch := s.changed
		s.mu.Unlock()
		for _, t := range todo {
			v, err := s.decode(t.b)
			if err == nil && !f(t.k, v) {
				return
			}
		}
		if len(todo) > 0 {
			continue
		}
		select {
		case <-ctx.Done():
			return
		case <-ch:
		}
	}
}

// Snapshot helpers -----------------------------------------------------------

// VersionsOf returns a copy of the committed versions of key, in commit order.
func (s *Store) VersionsOf(key string) []Version {
	s.mu.Lock()
	defer s.mu.Unlock()
	var out []Version
	for _, v := range s.Versions {
		if v.Key == key {
			out = append(out, v)
		}
	}
	return out
}

func (s *Store) AttemptsCopy() []Attempt {
	s.mu.Lock()
	defer s.mu.Unlock()
	return append([]Attempt(nil), s.Attempts...)
}

func (s *Store) GetsCopy() []GetEvent {
	s.mu.Lock()
	defer s.mu.Unlock()
	return append([]GetEvent(nil), s.Gets...)
}

// Decode decodes a version's bytes (nil for deleted).
func (s *Store) Decode(v Version) interface{} {
	if v.Bytes == nil {
		return nil
	}
	x, err := s.codec.Decode(v.Bytes)
	if err != nil {
		panic(err)
	}
	return x
}

// Put writes a value on behalf of writer unconditionally.
func (s *Store) Put(writer, key string, val interface{}) {
	h := s.Client(writer)
	if err := h.CAS(context.Background(), key, func(interface{}) (interface{}, bool, error) { return val, false, nil }); err != nil {
		panic(err)
	}
}

// CurrentVersion returns the current version number of key.
func (s *Store) CurrentVersion(key string) int {
	s.mu.Lock()
	defer s.mu.Unlock()
	if ks := s.keys[key]; ks != nil {
		return ks.n
	}
	return 0
}
