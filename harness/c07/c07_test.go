package c07

import (
	"context"
	"errors"
	"fmt"
	"io"
	"math/rand/v2"
	"sort"
	"strings"
	"sync"
	"sync/atomic"
	"testing"
	"time"

	"github.com/anishathalye/porcupine"
	"github.com/go-kit/log"
	"github.com/prometheus/client_golang/prometheus"

	"github.com/grafana/dskit/kv"
	"github.com/grafana/dskit/kv/consul"
	"github.com/grafana/dskit/kv/etcd"
	mlkv "github.com/grafana/dskit/kv/memberlist"
	"github.com/grafana/dskit/ring"
	"github.com/grafana/dskit/services"

	"verifharness/simnet"
	"verifharness/vt"
)

// value: a ring descriptor; entry "ctr" carries the counter in its heartbeat stamp, every append is
// a unique instance. With unique appends and a growing counter, merge semantics (gossip store) and
// register semantics coincide, which is what the statement claims for that backend.
func canon(v interface{}) string {
	d, _ := v.(*ring.Desc)
	if d == nil {
		return "<nil>"
	}
	var ids []string
	for id, e := range d.Ingesters {
		if id == "ctr" || e.State == ring.LEFT {
			continue
		}
		ids = append(ids, id)
	}
	sort.Strings(ids)
	return fmt.Sprintf("ctr=%d %s", d.Ingesters["ctr"].Timestamp, strings.Join(ids, ","))
}

type attempt struct {
	In, Out string
}

type opRec struct {
	Caller   int       `json:"caller"`
	Kind     string    `json:"kind"` // inc append decline fail fail-retry get
	Key      string    `json:"key"`
	Call     int64     `json:"call"`
	Return   int64     `json:"return"`
	Attempts []attempt `json:"attempts"`
	Err      string    `json:"err"`
	GetVal   string    `json:"get_value"`
	Appended string    `json:"appended"`
}

func (o opRec) success() bool {
	return o.Kind != "get" && o.Err == "" && len(o.Attempts) > 0 && o.Attempts[len(o.Attempts)-1].Out != ""
}

type backend struct {
	name   string
	client kv.Client
	closer func()
	// the secondary store of a mirroring multi client, read directly (same prefix) at the end of a history
	secondary kv.Client
}

var inmemOnce sync.Once

func mkBackend(kind, wrapper string, uniq string) (*backend, error) {
	codec := ring.GetCodec()
	logger := log.NewNopLogger()
	b := &backend{name: kind + "/" + wrapper}
	var closers []func()
	var base kv.Client
	switch kind {
	case "consul":
		c, cl := consul.NewInMemoryClient(codec, logger, nil)
		base = c
		closers = append(closers, func() { cl.Close() })
	case "etcd":
		c, cl := etcd.NewInMemoryClient(codec, logger)
		base = c
		closers = append(closers, func() { cl.Close() })
	case "memberlist":
		net, err := simnet.New(1, simnet.DefaultConfig(time.Hour))
		if err != nil {
			return nil, err
		}
		base = net.Client(0, codec)
		closers = append(closers, net.Stop)
	default:
		return nil, fmt.Errorf("unknown backend %s", kind)
	}
	switch wrapper {
	case "bare":
		b.client = base
	case "prefix":
		b.client = kv.PrefixClient(base, "pfx/"+uniq+"/")
	case "metrics", "multi-mirror", "multi-nomirror":
		// the public constructor builds prefix + metrics (+ multi) around the process-wide in-memory
		// store and/or a gossip store; keys are unique per history.
		reg := prometheus.NewRegistry()
		cfg := kv.Config{Prefix: "p-" + uniq + "/"}
		var mnet *simnet.Net
		cfg.MemberlistKV = nil
		switch {
		case wrapper == "metrics" && kind == "consul":
			cfg.Store = "inmemory"
		case wrapper == "metrics" && kind == "memberlist":
			net, err := simnet.New(1, simnet.DefaultConfig(time.Hour))
			if err != nil {
				return nil, err
			}
			mnet = net
			cfg.Store = "memberlist"
		case kind == "consul": // multi, primary in-memory, secondary gossip
			net, err := simnet.New(1, simnet.DefaultConfig(time.Hour))
			if err != nil {
				return nil, err
			}
			mnet = net
			cfg.Store = "multi"
			cfg.Multi = kv.MultiConfig{Primary: "inmemory", Secondary: "memberlist", MirrorEnabled: wrapper == "multi-mirror", MirrorTimeout: 2 * time.Second}
		case kind == "memberlist": // multi, primary gossip, secondary in-memory
			net, err := simnet.New(1, simnet.DefaultConfig(time.Hour))
			if err != nil {
				return nil, err
			}
			mnet = net
			cfg.Store = "multi"
			cfg.Multi = kv.MultiConfig{Primary: "memberlist", Secondary: "inmemory", MirrorEnabled: wrapper == "multi-mirror", MirrorTimeout: 2 * time.Second}
		default:
			return nil, fmt.Errorf("wrapper %s not available for %s", wrapper, kind)
		}
		if mnet != nil {
			kvs := mnet.Nodes[0].KV
			cfg.MemberlistKV = func() (*mlkv.KV, error) { return kvs, nil }
			closers = append(closers, mnet.Stop)
		}
		// half of the mirroring multi clients get their primary switched to the other store at run time (the
		// migration use case) before the history starts; mirroring then goes to the former primary
		var cfgCh chan kv.MultiRuntimeConfig
		if wrapper == "multi-mirror" && len(uniq)%2 == 0 {
			cfgCh = make(chan kv.MultiRuntimeConfig, 1)
			ch := cfgCh
			cfg.Multi.ConfigProvider = func() <-chan kv.MultiRuntimeConfig { return ch }
		}
		c, err := kv.NewClient(cfg, codec, reg, logger)
		if err != nil {
			return nil, err
		}
		b.client = c
		if cfgCh != nil {
			cfgCh <- kv.MultiRuntimeConfig{PrimaryStore: cfg.Multi.Secondary}
			time.Sleep(30 * time.Millisecond) // let the client's config watcher apply it; not part of any verdict
			b.name += "/primary-switched"
		}
		if wrapper == "multi-mirror" {
			if kind == "consul" {
				b.secondary = kv.PrefixClient(mnet.Client(0, codec), cfg.Prefix)
			} else {
				sc, err := kv.NewClient(kv.Config{Store: "inmemory", Prefix: cfg.Prefix}, codec, prometheus.NewRegistry(), logger)
				if err != nil {
					return nil, err
				}
				b.secondary = sc
			}
		}
	default:
		return nil, fmt.Errorf("unknown wrapper %s", wrapper)
	}
	b.closer = func() {
		for _, c := range closers {
			c()
		}
	}
	return b, nil
}

var errDecline = errors.New("caller refuses")

type histCase struct {
	Backend string `json:"backend"`
	Callers int    `json:"callers"`
	OpsEach int    `json:"ops_each"`
	Keys    int    `json:"keys"`
	Hostile bool   `json:"barrier_inside_f"`
	Fresh   bool   `json:"key_absent_at_start"`
	// Directed: two callers, one operation each: append vs append-only-if-even, both inside f on the same version
	Directed bool `json:"directed_decline_race,omitempty"`
}

// barrier holds callers inside f until k of them have arrived (or a short timeout), so that many
// attempts have read the same version before any of them writes.
type barrier struct {
	mu      sync.Mutex
	waiting int
	k       int
	ch      chan struct{}
}

func (b *barrier) wait() {
	b.mu.Lock()
	b.waiting++
	if b.waiting >= b.k {
		close(b.ch)
		b.ch = make(chan struct{})
		b.waiting = 0
		b.mu.Unlock()
		return
	}
	ch := b.ch
	b.mu.Unlock()
	select {
	case <-ch:
	case <-time.After(2 * time.Millisecond):
		b.mu.Lock()
		if b.ch == ch && b.waiting > 0 {
			b.waiting--
		}
		b.mu.Unlock()
	}
}

func runHistory(run *vt.Run, c vt.CaseID, rng *rand.Rand, kind, wrapper string) {
	runHistoryD(run, c, rng, kind, wrapper, false)
}

// runHistoryD with directed set runs the shortest race of a writer against a caller whose function decides on the
// value it reads: two callers, one operation each (append / append-only-if-even), both held inside f until both have
// read the same version; the loser's retry declines. What the wrappers did with the loser's first result shows in
// the secondary store, which nobody overwrites afterwards.
func runHistoryD(run *vt.Run, c vt.CaseID, rng *rand.Rand, kind, wrapper string, directed bool) {
	hc := histCase{Backend: kind + "/" + wrapper, Callers: 2 + rng.IntN(15), OpsEach: 1 + rng.IntN(vt.N(12, 50)), Keys: 1 + rng.IntN(3), Hostile: rng.IntN(2) == 0, Fresh: rng.IntN(4) == 0}
	if directed {
		hc = histCase{Backend: kind + "/" + wrapper, Callers: 2, OpsEach: 1, Keys: 1, Hostile: true, Fresh: true, Directed: true}
	}
	b, err := mkBackend(kind, wrapper, fmt.Sprintf("%s-%d-%d", c.Gen, c.Seed, c.Idx))
	if err != nil {
		run.Inconclusive(err.Error())
		return
	}
	defer b.closer()
	ctx := context.Background()
	keys := make([]string, hc.Keys)
	for i := range keys {
		keys[i] = fmt.Sprintf("key-%s-%d-%d-%d", c.Gen, c.Seed, c.Idx, i) // the in-memory store is process-wide
		if !hc.Fresh {
			err := b.client.CAS(ctx, keys[i], func(interface{}) (interface{}, bool, error) {
				d := ring.NewDesc()
				d.Ingesters["ctr"] = ring.InstanceDesc{Id: "ctr", Addr: "ctr", Timestamp: 1, State: ring.ACTIVE}
				return d, false, nil
			})
			if err != nil {
				run.Inconclusive("initial write failed: " + err.Error())
				return
			}
		}
	}
	initial := map[string]string{}
	for _, k := range keys {
		v, _ := b.client.Get(ctx, k)
		initial[k] = canon(v)
	}
	var clock atomic.Int64
	var mu sync.Mutex
	var ops []opRec
	bar := &barrier{k: 2 + rng.IntN(hc.Callers), ch: make(chan struct{})}
	if hc.Directed {
		bar.k = 2
	}
	var wg sync.WaitGroup
	seeds := make([]uint64, hc.Callers)
	for i := range seeds {
		seeds[i] = rng.Uint64()
	}
	for caller := 0; caller < hc.Callers; caller++ {
		wg.Add(1)
		go func(caller int) {
			defer wg.Done()
			r := rand.New(rand.NewPCG(seeds[caller], uint64(caller)))
			for n := 0; n < hc.OpsEach; n++ {
				key := keys[r.IntN(len(keys))]
				rec := opRec{Caller: caller, Key: key}
				kindOp := []string{"inc", "inc", "append", "append", "decline", "fail", "fail-retry", "get", "append-if-even"}[r.IntN(9)]
				if hc.Directed {
					kindOp = []string{"append", "append-if-even"}[caller]
				}
				rec.Kind = kindOp
				if kindOp == "get" {
					rec.Call = clock.Add(1)
					v, err := b.client.Get(ctx, key)
					rec.Return = clock.Add(1)
					rec.GetVal = canon(v)
					if err != nil {
						rec.Err = err.Error()
					}
				} else {
					retriesLeft := 2
					appendID := fmt.Sprintf("c%d-%d", caller, n)
					rec.Call = clock.Add(1)
					err := b.client.CAS(ctx, key, func(in interface{}) (interface{}, bool, error) {
						at := attempt{In: canon(in)}
						defer func() { rec.Attempts = append(rec.Attempts, at) }()
						if hc.Hostile {
							bar.wait()
						}
						switch kindOp {
						case "decline":
							return nil, false, nil
						case "fail":
							return nil, false, errDecline
						case "fail-retry":
							if retriesLeft > 0 {
								retriesLeft--
								return nil, true, errDecline
							}
						}
						d := ring.GetOrCreateRingDesc(in)
						if kindOp == "append-if-even" && len(d.Ingesters)%2 != 0 {
							// the decision depends on the value read: an attempt that wanted to write and lost
							// the race may decline on the retry
							return nil, false, nil
						}
						e := d.Ingesters["ctr"]
						switch kindOp {
						case "inc", "fail-retry":
							e.Id, e.Addr, e.State = "ctr", "ctr", ring.ACTIVE
							e.Timestamp++
							d.Ingesters["ctr"] = e
						case "append", "append-if-even":
							d.Ingesters[appendID] = ring.InstanceDesc{Id: appendID, Addr: appendID, Timestamp: 1, State: ring.ACTIVE, Tokens: []uint32{uint32(caller*1000 + n)}}
							rec.Appended = appendID
						}
						at.Out = canon(d)
						return d, true, nil
					})
					rec.Return = clock.Add(1)
					if err != nil {
						rec.Err = err.Error()
					}
				}
				mu.Lock()
				ops = append(ops, rec)
				mu.Unlock()
			}
		}(caller)
	}
	wg.Wait()
	finals := map[string]string{}
	for _, k := range keys {
		v, _ := b.client.Get(ctx, k)
		finals[k] = canon(v)
	}
	judge(run, c, hc, keys, initial, finals, ops)
	// the mirrored secondary only ever receives what a successful call wrote to the primary. It may lag behind, and
	// mirror writes of different callers may land in either order: an overwriting secondary (in-memory store) then
	// holds some successful output; a merging secondary (gossip store, where a write also removes the entries it
	// lacks) may hold a mix of two of them. In both cases every element it holds was appended by a successful
	// call, and its counter never exceeds the primary's.
	if b.secondary != nil {
		for _, k := range keys {
			v, err := b.secondary.Get(ctx, k)
			if err != nil {
				continue
			}
			sv := canon(v)
			exact := sv == initial[k] || sv == "<nil>"
			okIDs := map[string]bool{}
			for _, o := range ops {
				if o.Key == k && o.success() {
					if o.Attempts[len(o.Attempts)-1].Out == sv {
						exact = true
					}
					if o.Appended != "" {
						okIDs[o.Appended] = true
					}
				}
			}
			run.Count("secondary_values_checked", 1)
			det := map[string]any{"case": hc, "key": k, "primary_final": finals[k], "secondary": sv}
			sig := strings.Split(hc.Backend, "/")[0] + "/multi/"
			if d, _ := v.(*ring.Desc); d != nil {
				for id, e := range d.Ingesters {
					if id != "ctr" && e.State != ring.LEFT && !okIDs[id] {
						run.Violation(c, sig+"secondary-holds-element-no-successful-call-wrote", fmt.Sprintf("the mirrored secondary store holds element %s, which no successful CAS appended", id), det)
					}
				}
				if pf, _ := b.client.Get(ctx, k); pf != nil && d.Ingesters["ctr"].Timestamp > pf.(*ring.Desc).Ingesters["ctr"].Timestamp {
					run.Violation(c, sig+"secondary-ahead-of-primary", "the mirrored secondary store holds a counter the primary never reached", det)
				}
			}
			if !exact && kind == "memberlist" { // secondary = overwriting in-memory store
				run.Violation(c, sig+"secondary-holds-value-no-successful-call-wrote", fmt.Sprintf("the mirrored secondary store holds %q, which is neither the initial value nor the output of a successful CAS", sv), det)
			}
		}
	}
}

func judge(run *vt.Run, c vt.CaseID, hc histCase, keys []string, initial, finals map[string]string, ops []opRec) {
	viol := func(sig, what string, extra map[string]any) {
		d := map[string]any{"case": hc}
		for k, v := range extra {
			d[k] = v
		}
		run.Violation(c, strings.Split(hc.Backend, "/")[0]+"/"+sig, what, d)
	}
	for _, key := range keys {
		var kops []opRec
		for _, o := range ops {
			if o.Key == key {
				kops = append(kops, o)
			}
		}
		// (2) chain check thanks to unique values
		state := initial[key]
		next := map[string]opRec{}
		dupIn := false
		nsucc := 0
		for _, o := range kops {
			if !o.success() {
				continue
			}
			nsucc++
			in := o.Attempts[len(o.Attempts)-1].In
			if prev, dup := next[in]; dup {
				dupIn = true
				sig := "lost-update/two-successes-on-one-input"
				if in == "<nil>" {
					sig += "/key-absent"
				}
				viol(sig, fmt.Sprintf("two successful CAS calls (callers %d and %d) applied their function to the same stored value %q", prev.Caller, o.Caller, in), map[string]any{"key": key, "first": prev, "second": o})
				break
			}
			next[in] = o
		}
		if !dupIn {
			steps := 0
			for {
				o, ok := next[state]
				if !ok {
					break
				}
				state = o.Attempts[len(o.Attempts)-1].Out
				steps++
				if steps > nsucc {
					break // a cycle (an output equal to an earlier input): reported as a broken chain below
				}
			}
			if steps != nsucc {
				viol("phantom-or-broken-chain", fmt.Sprintf("%d successful CAS calls but only %d of them form a chain from the initial value", nsucc, steps), map[string]any{"key": key, "initial": initial[key], "chain_end": state, "final": finals[key]})
			} else if state != finals[key] {
				viol("final-value-differs-from-successful-calls", fmt.Sprintf("the final value %q is not the result %q of the successful calls", finals[key], state), map[string]any{"key": key})
			}
		}
		// (1) porcupine on the per-key history
		var pops []porcupine.Operation
		for _, o := range kops {
			pops = append(pops, porcupine.Operation{ClientId: o.Caller, Input: o, Call: o.Call, Output: nil, Return: o.Return})
		}
		model := porcupine.Model{
			Init: func() interface{} { return initial[key] },
			Step: func(st, in, _ interface{}) (bool, interface{}) {
				o := in.(opRec)
				s := st.(string)
				if o.Kind == "get" {
					return o.Err != "" || o.GetVal == s, s
				}
				if !o.success() {
					return true, s
				}
				last := o.Attempts[len(o.Attempts)-1]
				return last.In == s, last.Out
			},
			Equal: func(a, b interface{}) bool { return a.(string) == b.(string) },
		}
		if len(pops) > 0 {
			res := porcupine.CheckOperationsTimeout(model, pops, 20*time.Second)
			run.Count("porcupine_histories", 1)
			switch res {
			case porcupine.Illegal:
				viol("not-linearizable", "the recorded CAS/Get history is not linearizable w.r.t. the register specification", map[string]any{"key": key, "ops": kops})
			case porcupine.Unknown:
				run.Inconclusive("porcupine timeout on a history of " + fmt.Sprint(len(pops)) + " operations")
			}
		}
		// a failed / declined call whose function was given the final chain never changed anything:
		// covered by the chain + final-value checks above.
		run.EvalH(vt.Mix(vt.Hash64(fmt.Sprintf("%+v", hc)), vt.Hash64(key), uint64(nsucc), uint64(len(kops))), nsucc > 1)
		run.Count("operations", int64(len(kops)))
		run.Count("successful_cas", int64(nsucc))
		run.Distinct("interleaving|" + finals[key])
	}
	if run.WantSample() && len(ops) > 4 {
		run.Sample(map[string]any{"case": hc, "first_ops": ops[:4], "finals": finals})
	}
}

func TestC07(t *testing.T) {
	run := vt.NewRun("C07", "exploration")
	run.SetRule("case = one history of 2-16 concurrent callers x 1-12 (thorough 50) operations on 1-3 keys against one backend/wrapper combination (in-memory Consul store, etcd client on its in-process mock, gossip store on one node; bare, prefix wrapper, metrics+prefix through the public constructor, multi-client with mirroring on and off in both primary/secondary arrangements), functions: increment, append a unique element, append only if the value read has an even number of entries (else decline), decline, fail without retry, fail with bounded retry, plus Get; in half of the histories callers are held inside f on a barrier until several have read the same version; keys pre-created or absent; generator decline-race: two callers, one operation each (append vs append-only-if-even) held inside f on the same version, so the loser's retry declines. Every call is recorded at the client boundary (attempt inputs/outputs, error, logical call/return times) and decided by (1) porcupine against a register model, (2) a chain check over unique values (no two successes on one input, successes form a chain from the initial value, final Get = end of the chain), (3) for mirroring multi clients the secondary store, read directly at the end, holds only elements appended by successful calls and no counter beyond the primary's (an overwriting secondary: exactly the initial value or the output of a successful call); all under the race detector. non-trivial = more than one successful CAS on the key; distinct by history parameters; distinct final values counted.")
	// the process-wide in-memory store must be created outside of any history
	if _, err := kv.NewClient(kv.Config{Store: "inmemory"}, ring.GetCodec(), nil, log.NewNopLogger()); err != nil {
		t.Fatal(err)
	}
	combos := [][2]string{
		{"consul", "bare"}, {"consul", "prefix"}, {"consul", "metrics"}, {"consul", "multi-mirror"}, {"consul", "multi-nomirror"},
		{"etcd", "bare"}, {"etcd", "prefix"},
		{"memberlist", "bare"}, {"memberlist", "prefix"}, {"memberlist", "metrics"}, {"memberlist", "multi-mirror"}, {"memberlist", "multi-nomirror"},
	}
	run.SetExtra("backend_wrapper_combinations", len(combos))
	per := vt.N(20, 400)
	run.ForEach("histories", len(combos)*per, func(c vt.CaseID, rng *rand.Rand, s *vt.Slot) {
		cb := combos[int(c.Idx)%len(combos)]
		s.Enter(c, "crash/histories")
		runHistory(run, c, rng, cb[0], cb[1])
		s.Leave()
	})
	// the shortest race between a writer and a caller whose retry declines, on every combination
	run.ForEach("decline-race", len(combos)*vt.N(25, 500), func(c vt.CaseID, rng *rand.Rand, s *vt.Slot) {
		cb := combos[int(c.Idx)%len(combos)]
		s.Enter(c, "crash/decline-race")
		runHistoryD(run, c, rng, cb[0], cb[1], true)
		s.Leave()
	})
	_ = io.EOF
	_ = services.New
	run.Finish(t)
}
