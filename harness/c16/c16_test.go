package c16

import (
	"fmt"
	mrand "math/rand"
	"math/rand/v2"
	"sort"
	"sync"
	"testing"
	"time"

	"github.com/grafana/dskit/ring"

	"verifharness/vt"
)

func checkBasic(run *vt.Run, c vt.CaseID, genName string, want int, taken map[uint32]bool, got []uint32, expectFull bool, detail map[string]any) {
	fail := func(sig, what string) {
		d := map[string]any{"generator": genName, "requested": want, "taken_count": len(taken), "returned": len(got)}
		for k, v := range detail {
			d[k] = v
		}
		if len(got) <= 64 {
			d["tokens"] = got
		}
		run.Violation(c, genName+"/"+sig, what, d)
	}
	seen := make(map[uint32]bool, len(got))
	for i, t := range got {
		if taken[t] {
			fail("returned-taken-token", fmt.Sprintf("token %d is in the taken set", t))
			return
		}
		if seen[t] {
			fail("duplicate-token", fmt.Sprintf("token %d returned twice", t))
			return
		}
		seen[t] = true
		if i > 0 && got[i-1] >= t {
			fail("not-sorted", "tokens not strictly increasing")
			return
		}
	}
	if len(got) > want && want >= 0 {
		fail("too-many", "more tokens than requested")
	}
	if expectFull && len(got) != want {
		fail("fewer-than-requested", "fewer tokens than requested although enough free tokens exist")
	}
}

// ownership spread of the first n+1 instances of a zone: 1 - min/max.
func spread(tokensBy map[int]ring.Tokens, n int) float64 {
	type to struct {
		tok uint32
		own int
	}
	all := make([]to, 0, (n+1)*512)
	for i := 0; i <= n; i++ {
		for _, t := range tokensBy[i] {
			all = append(all, to{t, i})
		}
	}
	sort.Slice(all, func(i, j int) bool { return all[i].tok < all[j].tok })
	own := make([]float64, n+1)
	for i, e := range all {
		var prev uint32
		if i == 0 {
			prev = all[len(all)-1].tok
		} else {
			prev = all[i-1].tok
		}
		d := uint64(e.tok - prev) // modular distance
		if len(all) == 1 {
			d = 1 << 32
		}
		own[e.own] += float64(d)
	}
	mn, mx := own[0], own[0]
	for _, o := range own {
		if o < mn {
			mn = o
		}
		if o > mx {
			mx = o
		}
	}
	return 1 - mn/mx
}

// spreadAllPrefixes returns the ownership spread of instances 0..n for every n in 0..maxN. It starts from the
// full token circle and removes instance maxN, maxN-1, ... (a removed token's range falls to its successor),
// so every prefix costs O(n) instead of a sort of all its tokens.
func spreadAllPrefixes(tokensBy map[int]ring.Tokens, maxN int) []float64 {
	type to struct {
		tok uint32
		own int
	}
	all := make([]to, 0, (maxN+1)*512)
	for i := 0; i <= maxN; i++ {
		for _, t := range tokensBy[i] {
			all = append(all, to{t, i})
		}
	}
	sort.Slice(all, func(i, j int) bool { return all[i].tok < all[j].tok })
	m := len(all)
	prev, next := make([]int, m), make([]int, m)
	rng := make([]uint64, m) // keys owned through this token
	own := make([]float64, maxN+1)
	byOwner := make([][]int, maxN+1)
	for i := range all {
		prev[i], next[i] = (i+m-1)%m, (i+1)%m
		rng[i] = uint64(all[i].tok - all[prev[i]].tok)
		if m == 1 {
			rng[i] = 1 << 32
		}
		own[all[i].own] += float64(rng[i])
		byOwner[all[i].own] = append(byOwner[all[i].own], i)
	}
	out := make([]float64, maxN+1)
	left := m
	for n := maxN; n >= 0; n-- {
		mn, mx := own[0], own[0]
		for _, o := range own[:n+1] {
			if o < mn {
				mn = o
			}
			if o > mx {
				mx = o
			}
		}
		out[n] = 1 - mn/mx
		if n == 0 {
			break
		}
		for _, i := range byOwner[n] {
			sc := next[i]
			rng[sc] += rng[i]
			own[all[sc].own] += float64(rng[i])
			own[n] -= float64(rng[i])
			next[prev[i]], prev[sc] = sc, prev[i]
			left--
		}
	}
	_ = left
	return out
}

func TestC16(t *testing.T) {
	run := vt.NewRun("C16", "exploration")
	run.SetRule("case = one GenerateTokens call (random generator: seeded and unseeded, hostile taken sets made of the generator's own next candidates, birthday-sized requests; spread-minimising generator: (instance index, zone index, requested count, taken set)) or one (zone, prefix) ownership-spread evaluation or one AddPartition sequence; checked: sorted, duplicate-free, disjoint from taken, full count when enough free tokens, token mod 8 = zone, tokens of (instance,zone) pairs pairwise disjoint, generator for n agrees with generator for k<n on k's tokens, spread < 1% for every prefix 0..n with n in 1..2000 of each of the 8 zones, partitions' tokens disjoint and equal to the generator's. non-trivial = taken set non-empty or instance index > 0; distinct by call parameters.")

	// ---- random generator -------------------------------------------------
	run.ForEach("random", vt.N(4000, 100000), func(c vt.CaseID, rng *rand.Rand, s *vt.Slot) {
		seed := int64(rng.Uint64() >> 1)
		want := rng.IntN(300)
		if rng.IntN(10) == 0 {
			want = 0
		}
		// replay the generator's PRNG to learn its next candidates
		shadow := mrand.New(mrand.NewSource(seed))
		cands := make([]uint32, want+50)
		for i := range cands {
			cands[i] = shadow.Uint32()
		}
		taken := map[uint32]bool{}
		var takenList []uint32
		hostile := rng.IntN(50)
		mode := rng.IntN(3)
		for i := 0; i < len(cands) && hostile > 0; i++ {
			if mode == 0 || (mode == 1 && i%2 == 0) || (mode == 2 && rng.IntN(3) == 0) {
				if !taken[cands[i]] {
					taken[cands[i]] = true
					takenList = append(takenList, cands[i])
					hostile--
				}
			}
		}
		for n := rng.IntN(100); n > 0; n-- {
			x := rng.Uint32()
			if !taken[x] {
				taken[x] = true
				takenList = append(takenList, x)
			}
		}
		// duplicates in the taken list are legal input
		if len(takenList) > 0 && rng.IntN(2) == 0 {
			takenList = append(takenList, takenList[0])
		}
		g := ring.NewRandomTokenGeneratorWithSeed(seed)
		got := g.GenerateTokens(want, takenList)
		run.EvalH(vt.Mix(uint64(seed), uint64(want), uint64(len(takenList))), len(taken) > 0 && want > 0)
		checkBasic(run, c, "random", want, taken, got, true, map[string]any{"seed": seed, "taken_sample": takenList[:min(len(takenList), 20)]})
		// a second call on the same generator with the first result taken
		all := append(append([]uint32(nil), takenList...), got...)
		t2 := map[uint32]bool{}
		for _, x := range all {
			t2[x] = true
		}
		got2 := g.GenerateTokens(want, all)
		checkBasic(run, c, "random", want, t2, got2, true, map[string]any{"seed": seed, "second_call": true})
		if c.Idx == 3 {
			run.Sample(map[string]any{"generator": "random", "seed": seed, "requested": want, "taken": len(taken), "first_tokens": got[:min(len(got), 5)]})
		}
	})
	run.ForEach("random-birthday", vt.N(2, 8), func(c vt.CaseID, rng *rand.Rand, s *vt.Slot) {
		var g *ring.RandomTokenGenerator
		if c.Idx%2 == 0 {
			g = ring.NewRandomTokenGeneratorWithSeed(int64(rng.Uint64() >> 1))
		} else {
			g = ring.NewRandomTokenGenerator()
		}
		want := 300000
		got := g.GenerateTokens(want, nil)
		run.EvalH(vt.Mix(uint64(c.Idx), 999), true)
		checkBasic(run, c, "random", want, map[uint32]bool{}, got, true, map[string]any{"birthday": true})
		// concurrent use of one generator (the lifecyclers of one process may share it)
		var wg sync.WaitGroup
		outs := make([][]uint32, 8)
		for i := range outs {
			wg.Add(1)
			go func(i int) { defer wg.Done(); outs[i] = g.GenerateTokens(2000, got[:1000]) }(i)
		}
		wg.Wait()
		tk := map[uint32]bool{}
		for _, x := range got[:1000] {
			tk[x] = true
		}
		for _, o := range outs {
			checkBasic(run, c, "random", 2000, tk, o, true, map[string]any{"concurrent": true})
		}
	})

	// ---- spread-minimising generator ---------------------------------------
	maxN := 2000 // the statement's range of instance indexes, in both tiers
	tables := make([]map[int]ring.Tokens, 8)
	run.ForEach("spread-tables", 8, func(c vt.CaseID, rng *rand.Rand, s *vt.Slot) {
		z := int(c.Idx)
		if _, ok := vt.ReplayCase(); ok {
			z = int(c.Idx)
		}
		g := ring.NewSpreadMinimizingTokenGeneratorForInstanceAndZoneID("ing-", maxN, z, false)
		tb, err := ring.VerifSpreadMinimizingTokensByInstance(g)
		if err != nil {
			run.Violation(c, "spread/generation-failed", "the generator could not produce tokens", map[string]any{"instance": maxN, "zone": z, "err": err.Error()})
			return
		}
		tables[z] = tb
		seen := make(map[uint32]int, (maxN+1)*512)
		for id := 0; id <= maxN; id++ {
			toks := tb[id]
			run.EvalH(vt.Mix(uint64(id), uint64(z), 16), id > 0)
			if len(toks) != 512 {
				run.Violation(c, "spread/not-512-tokens", fmt.Sprintf("instance %d zone %d has %d tokens", id, z, len(toks)), map[string]any{"instance": id, "zone": z})
			}
			for i, tk := range toks {
				if tk%8 != uint32(z) {
					run.Violation(c, "spread/token-not-congruent-to-zone", fmt.Sprintf("token %d of instance %d is not congruent to zone %d modulo 8", tk, id, z), map[string]any{"instance": id, "zone": z, "token": tk})
				}
				if i > 0 && toks[i-1] >= tk {
					run.Violation(c, "spread/not-sorted", "tokens not strictly increasing", map[string]any{"instance": id, "zone": z})
				}
				if prev, dup := seen[tk]; dup {
					run.Violation(c, "spread/token-shared-between-instances", fmt.Sprintf("token %d belongs to instances %d and %d of zone %d", tk, prev, id, z), map[string]any{"zone": z, "token": tk})
				}
				seen[tk] = id
			}
		}
	})
	if vt.GenEnabled("spread-tables") {
		run.SetExtra("spread_max_instance_index", maxN)
	}
	// every generator computes the same tokens for itself as the big table says
	type kz struct{ k, z int }
	var own []kz
	if tables[0] != nil || !vt.GenEnabled("spread-tables") {
		for z := 0; z < 8; z++ {
			for k := 0; k <= 40; k++ {
				own = append(own, kz{k, z})
			}
		}
		rr := vt.CaseID{Gen: "own-sample", Seed: vt.Seed()}.Rand()
		for i := 0; i < vt.N(40, 160); i++ {
			own = append(own, kz{rr.IntN(maxN + 1), rr.IntN(8)})
		}
	}
	var worstMu sync.Mutex
	worst := map[int]float64{}
	run.ForEach("spread-own", len(own), func(c vt.CaseID, rng *rand.Rand, s *vt.Slot) {
		e := own[c.Idx]
		if tables[e.z] == nil {
			g := ring.NewSpreadMinimizingTokenGeneratorForInstanceAndZoneID("ing-", maxN, e.z, false)
			tables[e.z], _ = ring.VerifSpreadMinimizingTokensByInstance(g)
		}
		g := ring.NewSpreadMinimizingTokenGeneratorForInstanceAndZoneID("ing-", e.k, e.z, false)
		got := g.GenerateTokens(512, nil)
		want := tables[e.z][e.k]
		run.EvalH(vt.Mix(uint64(e.k), uint64(e.z), 17), e.k > 0)
		if fmt.Sprint([]uint32(got)) != fmt.Sprint([]uint32(want)) {
			run.Violation(c, "spread/generators-disagree", fmt.Sprintf("generator of instance %d zone %d yields other tokens than the generator of instance %d attributes to it", e.k, e.z, maxN), map[string]any{"instance": e.k, "zone": e.z, "own_first": got[:min(5, len(got))], "table_first": want[:min(5, len(want))]})
		}
		// what a generator returns belongs to the caller (lifecyclers sort, append to and truncate such lists): the
		// harness overwrites the returned list; later calls on the same generator object must not be affected
		scribble := func(l ring.Tokens) {
			for i := range l {
				l[i] = uint32(7*i + 3)
			}
			if cap(l) > len(l) {
				l = l[:cap(l)]
				l[len(l)-1] = 1
			}
		}
		scribble(got)
		if again := g.GenerateTokens(512, nil); fmt.Sprint([]uint32(again)) != fmt.Sprint([]uint32(want)) {
			run.Violation(c, "spread/not-pure-function/caller-owned-result-aliased", fmt.Sprintf("after the caller overwrote the list a first call returned, a second call on the same generator (instance %d zone %d) yields other tokens", e.k, e.z), map[string]any{"instance": e.k, "zone": e.z, "second_first": again[:min(5, len(again))], "table_first": want[:min(5, len(want))]})
		}
		if few := g.GenerateTokens(3, nil); len(want) >= 3 {
			ok := fmt.Sprint([]uint32(few)) == fmt.Sprint([]uint32(want[:3]))
			few = append(few, 1, 2, 3) // grows into whatever lies behind the three tokens
			scribble(few)
			if again := g.GenerateTokens(512, nil); !ok || fmt.Sprint([]uint32(again)) != fmt.Sprint([]uint32(want)) {
				run.Violation(c, "spread/not-pure-function/caller-owned-result-aliased", fmt.Sprintf("a short request followed by appends of the caller changed what the generator (instance %d zone %d) yields", e.k, e.z), map[string]any{"instance": e.k, "zone": e.z})
			}
		}
		// via the public constructor with names
		zones := []string{"a", "b", "c", "d", "e", "f", "g", "h"}
		// the configured zone list in any order: the zone index is the position in the *sorted* list
		cfgZones := append([]string(nil), zones...)
		if rng.IntN(2) == 0 {
			rng.Shuffle(len(cfgZones), func(i, j int) { cfgZones[i], cfgZones[j] = cfgZones[j], cfgZones[i] })
		}
		g2, err := ring.NewSpreadMinimizingTokenGenerator(fmt.Sprintf("ingester-zone-%s-%d", zones[e.z], e.k), zones[e.z], cfgZones, false)
		if err != nil {
			run.Violation(c, "spread/constructor-failed", "public constructor failed", map[string]any{"err": err.Error()})
			return
		}
		got2 := g2.GenerateTokens(512, nil)
		if fmt.Sprint([]uint32(got2)) != fmt.Sprint([]uint32(want)) {
			run.Violation(c, "spread/generators-disagree", "generator built from names yields other tokens than the one built from indexes", map[string]any{"instance": e.k, "zone": e.z})
		}
		// taken sets and requested counts
		for rep := 0; rep < 6; rep++ {
			req := rng.IntN(601)
			taken := map[uint32]bool{}
			var tl []uint32
			for n := rng.IntN(300); n > 0; n-- {
				var x uint32
				if rng.IntN(2) == 0 && len(want) > 0 {
					x = want[rng.IntN(len(want))]
				} else {
					x = rng.Uint32()
				}
				if !taken[x] {
					taken[x] = true
					tl = append(tl, x)
				}
			}
			free := 0
			var expect []uint32
			for _, tk := range want {
				if !taken[tk] {
					free++
					if len(expect) < req {
						expect = append(expect, tk)
					}
				}
			}
			out := g.GenerateTokens(req, tl)
			run.EvalH(vt.Mix(uint64(e.k), uint64(e.z), uint64(req), uint64(len(tl)), uint64(rep)), len(tl) > 0)
			checkBasic(run, c, "spread", req, taken, out, free >= req, map[string]any{"instance": e.k, "zone": e.z, "free_among_512": free})
			for _, tk := range out {
				if tk%8 != uint32(e.z) {
					run.Violation(c, "spread/token-not-congruent-to-zone", "token not congruent to its zone modulo 8", map[string]any{"instance": e.k, "zone": e.z, "token": tk})
				}
			}
			if free < req && len(out) != free {
				run.Violation(c, "spread/fewer-than-free", "returned fewer tokens than are free among the instance's 512", map[string]any{"instance": e.k, "zone": e.z, "requested": req, "free": free, "returned": len(out)})
			}
			if fmt.Sprint([]uint32(out)) != fmt.Sprint(expect) && len(out) > 0 {
				run.Violation(c, "spread/not-pure-function", "tokens returned under a taken set are not the instance's own tokens minus the taken ones", map[string]any{"instance": e.k, "zone": e.z, "requested": req})
			}
			scribble(out)
		}
		if c.Idx == 50 {
			run.Sample(map[string]any{"generator": "spread-minimizing", "instance": e.k, "zone": e.z, "first_tokens": want[:5]})
		}
	})
	// spread of every prefix 0..n, n in 1..maxN, of every zone (incremental), cross-checked against the direct
	// computation on a few prefixes per zone
	nPrefixes := 0
	var nPrefMu sync.Mutex
	run.ForEach("spread-prefix", 8, func(c vt.CaseID, rng *rand.Rand, s *vt.Slot) {
		z := int(c.Idx)
		if tables[z] == nil {
			g := ring.NewSpreadMinimizingTokenGeneratorForInstanceAndZoneID("ing-", maxN, z, false)
			tables[z], _ = ring.VerifSpreadMinimizingTokensByInstance(g)
		}
		sps := spreadAllPrefixes(tables[z], maxN)
		for _, k := range []int{1, 2, 3, 17, 64, 300, 1 + rng.IntN(maxN), maxN} {
			if d := spread(tables[z], k); d-sps[k] > 1e-9 || sps[k]-d > 1e-9 {
				run.Inconclusive(fmt.Sprintf("harness: incremental spread %.9f differs from the direct computation %.9f at zone %d prefix %d", sps[k], d, z, k))
				return
			}
		}
		reported := 0
		for k := 1; k <= maxN; k++ {
			sp := sps[k]
			run.EvalH(vt.Mix(uint64(k), uint64(z), 18), true)
			worstMu.Lock()
			if sp > worst[z] {
				worst[z] = sp
			}
			worstMu.Unlock()
			if sp >= 0.01 && reported < 3 {
				reported++
				run.Violation(c, "spread/ownership-spread-over-1-percent", fmt.Sprintf("zone %d, instances 0..%d: 1-min/max ownership = %.4f%%", z, k, sp*100), map[string]any{"zone": z, "prefix": k, "spread": sp})
			}
		}
		nPrefMu.Lock()
		nPrefixes += maxN
		nPrefMu.Unlock()
	})
	if vt.GenEnabled("spread-prefix") {
		run.SetExtra("worst_spread_by_zone", worst)
		run.SetExtra("prefixes_evaluated", nPrefixes)
	}

	// ---- partition rings ---------------------------------------------------
	run.ForEach("partitions", vt.N(6, 30), func(c vt.CaseID, rng *rand.Rand, s *vt.Slot) {
		n := 1 + rng.IntN(vt.N(120, 400))
		d := ring.NewPartitionRingDesc()
		order := rng.Perm(n)
		if c.Idx%2 == 0 {
			sort.Ints(order)
		}
		seen := map[uint32]int32{}
		for _, id := range order {
			d.AddPartition(int32(id), ring.PartitionActive, time.Unix(10, 0))
			toks := d.Partitions[int32(id)].Tokens
			g := ring.NewSpreadMinimizingTokenGeneratorForInstanceAndZoneID("", id, 0, false)
			want := g.GenerateTokens(512, nil)
			run.EvalH(vt.Mix(uint64(id), 19), true)
			if fmt.Sprint(toks) != fmt.Sprint([]uint32(want)) {
				run.Violation(c, "partition/tokens-differ-from-generator", "AddPartition tokens differ from the spread-minimising generator's for that id", map[string]any{"partition": id})
			}
			for i, tk := range toks {
				if i > 0 && toks[i-1] >= tk {
					run.Violation(c, "partition/not-sorted", "partition tokens not sorted", map[string]any{"partition": id})
				}
				if p, dup := seen[tk]; dup {
					run.Violation(c, "partition/tokens-not-disjoint", fmt.Sprintf("token %d in partitions %d and %d", tk, p, id), map[string]any{"n": n})
				}
				seen[tk] = int32(id)
			}
		}
		if _, err := ring.NewPartitionRing(*d); err != nil {
			run.Violation(c, "partition/ring-build-failed", "partition ring cannot be built from AddPartition output", map[string]any{"err": err.Error()})
		}
	})
	run.Finish(t)
}
