package c13

import (
	"context"
	"fmt"
	"math/rand/v2"
	"runtime"
	"sort"
	"strings"
	"sync"
	"sync/atomic"
	"testing"
	"testing/synctest"
	"time"

	"github.com/go-kit/log"

	"github.com/grafana/dskit/ring"
	"github.com/grafana/dskit/services"
	"github.com/grafana/dskit/verifhook"

	"verifharness/recstore"
	"verifharness/rk"
	"verifharness/vt"
)

// ---- canonical answers ------------------------------------------------------------

func descStr(d ring.InstanceDesc) string {
	var vk []uint64
	for k := range d.Versions {
		vk = append(vk, k)
	}
	sort.Slice(vk, func(i, j int) bool { return vk[i] < vk[j] })
	var vs []string
	for _, k := range vk {
		vs = append(vs, fmt.Sprintf("%d:%d", k, d.Versions[k]))
	}
	return fmt.Sprintf("{%s a=%s z=%s st=%v ts=%d reg=%d ro=%v/%d tok=%v ver=%v}", d.Id, d.Addr, d.Zone, d.State, d.Timestamp, d.RegisteredTimestamp, d.ReadOnly, d.ReadOnlyUpdatedTimestamp, d.Tokens, vs)
}

func rsStr(rs ring.ReplicationSet, err error) string {
	if err != nil {
		return "ERR"
	}
	var s []string
	for _, i := range rs.Instances {
		s = append(s, descStr(i))
	}
	sort.Strings(s)
	return fmt.Sprintf("%v maxErr=%d maxZones=%d za=%v", s, rs.MaxErrors, rs.MaxUnavailableZones, rs.ZoneAwarenessEnabled)
}

var ops = []ring.Operation{ring.Write, ring.WriteNoExtend, ring.Read, ring.Reporting}
var opNames = []string{"Write", "WriteNoExtend", "Read", "Reporting"}

type query struct {
	name string
	f    func(r ring.ReadRing) string
}

func readRingAnswers(r ring.ReadRing, keys []uint32, prefix string, out map[string]string) {
	for oi, op := range ops {
		for _, k := range keys {
			rs, err := r.Get(k, op, nil, nil, nil)
			out[fmt.Sprintf("%sGet(%d,%s)", prefix, k, opNames[oi])] = rsStr(rs, err)
		}
		rs, err := r.GetAllHealthy(op)
		out[prefix+"GetAllHealthy("+opNames[oi]+")"] = rsStr(rs, err)
		rs, err = r.GetReplicationSetForOperation(op)
		out[prefix+"GetReplicationSetForOperation("+opNames[oi]+")"] = rsStr(rs, err)
	}
	out[prefix+"counts"] = fmt.Sprintf("inst=%d withTok=%d writable=%d zones=%d %v rf=%d", r.InstancesCount(), r.InstancesWithTokensCount(), r.WritableInstancesWithTokensCount(), r.ZonesCount(), r.Zones(), r.ReplicationFactor())
	for _, z := range []string{"z0", "z1", "z2", "", "zx"} {
		out[prefix+"zone("+z+")"] = fmt.Sprintf("%d/%d/%d", r.InstancesInZoneCount(z), r.InstancesWithTokensInZoneCount(z), r.WritableInstancesWithTokensInZoneCount(z))
	}
}

type lookbackQ struct {
	id     string
	size   int
	period time.Duration
	now    time.Time
}

// answers collects every read API's answer in canonical form.
func answers(r *ring.Ring, ids []string, keys []uint32, shardQs [][2]any, lbQs []lookbackQ) map[string]string {
	out := map[string]string{}
	readRingAnswers(r, keys, "", out)
	for _, id := range ids {
		d, err := r.GetInstance(id)
		st, err2 := r.GetInstanceState(id)
		out["GetInstance("+id+")"] = fmt.Sprintf("%s err=%v state=%v err2=%v has=%v", descStr(d), err != nil, st, err2 != nil, r.HasInstance(id))
		tr, err := r.GetTokenRangesForInstance(id)
		out["GetTokenRangesForInstance("+id+")"] = fmt.Sprintf("%v err=%v", tr, err != nil)
	}
	for _, q := range shardQs {
		id, size := q[0].(string), q[1].(int)
		sub := r.ShuffleShard(id, size)
		readRingAnswers(sub, keys[:min(3, len(keys))], fmt.Sprintf("ShuffleShard(%s,%d).", id, size), out)
		if sr, ok := sub.(*ring.Ring); ok {
			for _, iid := range ids {
				d, err := sr.GetInstance(iid)
				out[fmt.Sprintf("ShuffleShard(%s,%d).GetInstance(%s)", id, size, iid)] = fmt.Sprintf("%s err=%v", descStr(d), err != nil)
			}
		}
	}
	for _, q := range lbQs {
		sub := r.ShuffleShardWithLookback(q.id, q.size, q.period, q.now)
		readRingAnswers(sub, keys[:min(2, len(keys))], fmt.Sprintf("ShuffleShardWithLookback(%s,%d,%v,%d).", q.id, q.size, q.period, q.now.Unix()), out)
	}
	for oi, op := range ops[:2] {
		sub := r.GetSubringForOperationStates(op)
		out["GetSubringForOperationStates("+opNames[oi]+").counts"] = fmt.Sprintf("%d %v", sub.InstancesCount(), sub.Zones())
	}
	return out
}

// ---- update generator ---------------------------------------------------------------

type hist struct {
	rng   *rand.Rand
	desc  *ring.Desc
	used  map[uint32]bool
	next  int
	zones []string
	// noIDs: the stored descriptor leaves InstanceDesc.Id empty (the identifier is only the map key, as older
	// lifecyclers wrote it); a ring client fills it in when it loads the content
	noIDs bool
}

func (h *hist) tokens(n int) []uint32 {
	var t []uint32
	for len(t) < n {
		x := h.rng.Uint32()
		if !h.used[x] {
			h.used[x] = true
			t = append(t, x)
		}
	}
	sort.Slice(t, func(i, j int) bool { return t[i] < t[j] })
	return t
}

func (h *hist) addInstance(now int64) string {
	id := fmt.Sprintf("ing-%d", h.next)
	h.next++
	storedID := id
	if h.noIDs {
		storedID = ""
	}
	h.desc.Ingesters[id] = ring.InstanceDesc{Id: storedID, Addr: "addr-" + id, Zone: h.zones[h.rng.IntN(len(h.zones))], Tokens: h.tokens(1 + h.rng.IntN(8)),
		State: ring.ACTIVE, Timestamp: now, RegisteredTimestamp: now - int64(h.rng.IntN(3)*100), Versions: map[uint64]uint64{1: 1}}
	return "add " + id
}

func (h *hist) ids() []string {
	var s []string
	for id := range h.desc.Ingesters {
		s = append(s, id)
	}
	sort.Strings(s)
	return s
}

// mutate applies one random update kind and returns its description.
func (h *hist) mutate(now int64) string {
	ids := h.ids()
	if len(ids) == 0 {
		return h.addInstance(now)
	}
	id := ids[h.rng.IntN(len(ids))]
	in := h.desc.Ingesters[id]
	what := ""
	switch k := h.rng.IntN(14); k {
	case 0:
		what = "heartbeat-only " + id
		in.Timestamp = now - int64(h.rng.IntN(200))
	case 1:
		what = "state-only " + id
		in.State = ring.InstanceState(h.rng.IntN(4))
	case 2:
		what = "tokens " + id
		in.Tokens = h.tokens(1 + h.rng.IntN(8))
	case 3:
		what = "zone " + id
		in.Zone = h.zones[h.rng.IntN(len(h.zones))]
	case 4:
		what = "address " + id
		in.Addr = fmt.Sprintf("addr-%s-%d", id, h.rng.IntN(100))
	case 5:
		what = "registered-ts " + id
		in.RegisteredTimestamp = now - int64(h.rng.IntN(300))
	case 6:
		what = "read-only " + id
		in.ReadOnly = !in.ReadOnly
		in.ReadOnlyUpdatedTimestamp = now - int64(h.rng.IntN(50))
	case 7:
		what = "read-only-ts " + id
		in.ReadOnlyUpdatedTimestamp = now - int64(h.rng.IntN(300))
	case 8:
		return h.addInstance(now)
	case 9:
		if len(ids) > 1 {
			delete(h.desc.Ingesters, id)
			return "remove " + id
		}
		what = "heartbeat-only " + id
		in.Timestamp = now
	case 10:
		return "identical descriptor"
	case 11:
		what = "versions " + id
		v := map[uint64]uint64{}
		for k, x := range in.Versions {
			v[k] = x
		}
		v[uint64(1+h.rng.IntN(2))] = uint64(h.rng.IntN(5))
		in.Versions = v
	case 12:
		what = "all heartbeats"
		for i2, d := range h.desc.Ingesters {
			d.Timestamp = now
			h.desc.Ingesters[i2] = d
		}
		return what
	default:
		what = "state+heartbeat " + id
		in.State = ring.InstanceState(h.rng.IntN(4))
		in.Timestamp = now
	}
	h.desc.Ingesters[id] = in
	return what
}

func cloneDesc(d *ring.Desc) *ring.Desc {
	o := ring.NewDesc()
	for k, v := range d.Ingesters {
		v.Tokens = append([]uint32(nil), v.Tokens...)
		if v.Versions != nil {
			m := map[uint64]uint64{}
			for a, b := range v.Versions {
				m[a] = b
			}
			v.Versions = m
		}
		o.Ingesters[k] = v
	}
	return o
}

func freshRing(d *ring.Desc, cfg ring.Config) (*ring.Ring, func(), error) {
	st := rk.NewStore()
	st.RecordGets = false
	st.Put("harness", rk.Key, cloneDesc(d))
	cfg.SubringCacheDisabled = true
	return rk.StartRing(cfg, st.Client("fresh"), rk.Key)
}

func compare(run *vt.Run, c vt.CaseID, got, want map[string]string, updates []string, where string) int {
	n := 0
	for k, w := range want {
		n++
		g := got[k]
		if g != w {
			api := k
			if i := strings.IndexAny(k, "("); i > 0 {
				api = k[:i]
			}
			if strings.HasPrefix(k, "ShuffleShardWithLookback") {
				api = "ShuffleShardWithLookback"
			} else if strings.HasPrefix(k, "ShuffleShard") {
				api = "ShuffleShard"
			}
			last := ""
			if len(updates) > 0 {
				last = strings.Fields(updates[len(updates)-1])[0]
			}
			run.Violation(c, "stale-answer/"+api+"/after-"+last, fmt.Sprintf("%s: long-lived client differs from a client freshly built from the latest content (%s)", k, where), map[string]any{"query": k, "long_lived": g, "fresh": w, "updates": updates})
		}
	}
	return n
}

func runHistory(t *testing.T, run *vt.Run, c vt.CaseID, rng *rand.Rand, concurrentReaders int) {
	synctest.Test(t, func(t *testing.T) {
		za := rng.IntN(2) == 0
		nz := 1 + rng.IntN(3)
		rf := 1 + rng.IntN(3)
		if za && rng.IntN(2) == 0 {
			rf = nz // token ranges are defined then
		}
		h := &hist{rng: rng, desc: ring.NewDesc(), used: map[uint32]bool{}, noIDs: c.Idx%4 == 3}
		for z := 0; z < nz; z++ {
			h.zones = append(h.zones, fmt.Sprintf("z%d", z))
		}
		now := time.Now().Unix()
		for i := 0; i < 1+rng.IntN(8); i++ {
			h.addInstance(now)
		}
		cfg := rk.Cfg(rf, za, 100*time.Second)
		store := rk.NewStore()
		store.RecordGets = false
		store.Put("harness", rk.Key, cloneDesc(h.desc))
		L, stopL, err := rk.StartRing(cfg, store.Client("long-lived"), rk.Key)
		if err != nil {
			run.Inconclusive(err.Error())
			return
		}
		defer stopL()
		var updates []string
		shardQs := [][2]any{}
		for i := 0; i < 3; i++ {
			shardQs = append(shardQs, [2]any{fmt.Sprintf("tenant-%d", rng.IntN(5)), rng.IntN(5)})
		}
		var wg sync.WaitGroup
		burst := func(step int) {
			for g := 0; g < concurrentReaders; g++ {
				wg.Add(1)
				go func(g int) {
					defer wg.Done()
					rr := rand.New(rand.NewPCG(uint64(c.Idx)*1000+uint64(step), uint64(g)))
					for it := 0; it < 6; it++ {
						q := shardQs[rr.IntN(len(shardQs))]
						sub := L.ShuffleShard(q[0].(string), q[1].(int))
						_, _ = sub.Get(rr.Uint32(), ring.Write, nil, nil, nil)
						_, _ = L.Get(rr.Uint32(), ring.Read, nil, nil, nil)
						lb := L.ShuffleShardWithLookback(q[0].(string), q[1].(int), time.Duration(1+rr.IntN(100))*time.Second, time.Now())
						_, _ = lb.GetAllHealthy(ring.Read)
						_, _ = L.GetReplicationSetForOperation(ring.Read)
						if rr.IntN(4) == 0 {
							L.CleanupShuffleShardCache(fmt.Sprintf("tenant-%d", rr.IntN(5)))
						}
						time.Sleep(time.Duration(rr.IntN(3)) * time.Millisecond)
					}
				}(g)
			}
		}
		steps := 10 + rng.IntN(35)
		compared := 0
		for step := 0; step < steps; step++ {
			if rng.IntN(3) == 0 {
				time.Sleep(time.Duration(1+rng.IntN(60)) * time.Second)
			}
			now = time.Now().Unix()
			n := 1 + rng.IntN(2)
			var kinds []string
			for i := 0; i < n; i++ {
				kinds = append(kinds, h.mutate(now))
			}
			updates = append(updates, strings.Join(kinds, " + "))
			if len(updates) > 25 {
				updates = updates[1:]
			}
			if concurrentReaders > 0 {
				// a real clock never repeats an instant: keep topology-change timestamps distinct
				time.Sleep(time.Millisecond)
				burst(step)
				time.Sleep(time.Duration(rng.IntN(4)) * time.Millisecond)
				store.Put("harness", rk.Key, cloneDesc(h.desc))
				wg.Wait()
				synctest.Wait()
			} else {
				store.Put("harness", rk.Key, cloneDesc(h.desc))
				synctest.Wait()
			}
			// queries: boundary keys, shard queries (some repeated -> cache hits, some new), look-back at non-monotonic times
			var keys []uint32
			for _, in := range h.desc.Ingesters {
				if len(in.Tokens) > 0 {
					keys = append(keys, in.Tokens[0], in.Tokens[0]-1)
				}
				if len(keys) >= 6 {
					break
				}
			}
			keys = append(keys, 0, rng.Uint32())
			if rng.IntN(3) == 0 {
				shardQs[rng.IntN(len(shardQs))] = [2]any{fmt.Sprintf("tenant-%d", rng.IntN(5)), rng.IntN(6)}
			}
			var lbQs []lookbackQ
			for i := 0; i < 3; i++ {
				q := shardQs[rng.IntN(len(shardQs))]
				lbQs = append(lbQs, lookbackQ{q[0].(string), q[1].(int), time.Duration([]int{10, 60, 250}[rng.IntN(3)]) * time.Second, time.Unix(now+int64(rng.IntN(120))-60, 0)})
			}
			F, stopF, err := freshRing(h.desc, cfg)
			if err != nil {
				run.Inconclusive(err.Error())
				return
			}
			ids := append(h.ids(), "ghost")
			want := answers(F, ids, keys, shardQs, lbQs)
			// ask the long-lived client twice: the second round is served from its caches
			got1 := answers(L, ids, keys, shardQs, lbQs)
			got2 := answers(L, ids, keys, shardQs, lbQs)
			compared += compare(run, c, got1, want, updates, "first query round")
			compared += compare(run, c, got2, want, updates, "second (cached) query round")
			stopF()
			run.EvalH(vt.Mix(vt.Hash64(strings.Join(updates, ";")), uint64(step)), true)
		}
		wg.Wait()
		run.Count("answers_compared", int64(compared))
		if c.Idx < 3 {
			run.Sample(map[string]any{"kind": "ring history", "zone_aware": za, "rf": rf, "updates": updates})
		}
	})
}

// ---- partition ring watcher ---------------------------------------------------------------

func partAnswers(pr *ring.PartitionRing, shardQs [][2]any, lbQs []lookbackQ, keys []uint32) map[string]string {
	out := map[string]string{}
	ids := func(r *ring.PartitionRing) string {
		return fmt.Sprintf("all=%v act=%v inact=%v pend=%v owners=%v", r.PartitionIDs(), r.ActivePartitionIDs(), r.InactivePartitionIDs(), r.PendingPartitionIDs(), func() []string {
			var o []string
			for _, p := range r.PartitionIDs() {
				o = append(o, fmt.Sprintf("%d:%v", p, r.PartitionOwnerIDs(p)))
			}
			return o
		}())
	}
	out["ids"] = ids(pr)
	out["counts"] = fmt.Sprintf("%d %d %d", pr.PartitionsCount(), pr.ActivePartitionsCount(), pr.MaxPartitionID())
	for _, k := range keys {
		p, err := pr.ActivePartitionForKey(k)
		out[fmt.Sprintf("ActivePartitionForKey(%d)", k)] = fmt.Sprintf("%d err=%v", p, err != nil)
	}
	for _, p := range pr.PartitionIDs() {
		tr, err := pr.GetTokenRangesForPartition(p)
		out[fmt.Sprintf("GetTokenRangesForPartition(%d)", p)] = fmt.Sprintf("%v err=%v", tr, err != nil)
	}
	for _, q := range shardQs {
		s, err := pr.ShuffleShard(q[0].(string), q[1].(int))
		if err != nil {
			out[fmt.Sprintf("ShuffleShard(%v)", q)] = "ERR"
			continue
		}
		out[fmt.Sprintf("ShuffleShard(%v)", q)] = ids(s)
		out[fmt.Sprintf("ShuffleShardSize(%v)", q)] = fmt.Sprint(pr.ShuffleShardSize(q[1].(int)))
	}
	for qi, q := range lbQs {
		s, err := pr.ShuffleShardWithLookback(q.id, q.size, q.period, q.now)
		k := fmt.Sprintf("ShuffleShardWithLookback(%s,%d,%v,%d.%03d)#%d", q.id, q.size, q.period, q.now.Unix(), q.now.Nanosecond()/1e6, qi)
		if err != nil {
			out[k] = "ERR"
			continue
		}
		out[k] = ids(s)
	}
	return out
}

const pkey = "partition-ring"

func runWatcherHistory(t *testing.T, run *vt.Run, c vt.CaseID, rng *rand.Rand) {
	synctest.Test(t, func(t *testing.T) {
		st := recstore.New(ring.GetPartitionRingCodec())
		st.RecordGets = false
		d := ring.NewPartitionRingDesc()
		now := time.Now().Unix()
		np := 1 + rng.IntN(8)
		for p := 0; p < np; p++ {
			d.AddPartition(int32(p), ring.PartitionState(1+rng.IntN(3)), time.Unix(now-int64(rng.IntN(300)), 0))
		}
		st.Put("harness", pkey, d.Clone())
		cacheSize := []int{0, 1, 2, 3}[rng.IntN(4)]
		w := ring.NewPartitionRingWatcherWithOptions("verif", pkey, st.Client("watcher"), ring.PartitionRingOptions{ShuffleShardCacheSize: cacheSize}, log.NewNopLogger(), nil)
		// a third of the histories run the watcher as the second member of a watchers group (another key, another
		// content) and read its ring through the group and through the group's partition-instance rings
		current := func() *ring.PartitionRing { return w.PartitionRing() }
		var svc services.Service = w
		if rng.IntN(3) == 0 {
			od := ring.NewPartitionRingDesc()
			od.AddPartition(77, ring.PartitionActive, time.Unix(now, 0))
			st.Put("harness", pkey+"-other", od)
			other := ring.NewPartitionRingWatcherWithOptions("verif-other", pkey+"-other", st.Client("watcher-other"), ring.PartitionRingOptions{}, log.NewNopLogger(), nil)
			grp, err := ring.NewPartitionRingWatchers(other, w)
			if err != nil {
				run.Inconclusive(err.Error())
				return
			}
			svc = grp
			pirs := ring.NewPartitionInstanceRings(grp, nil, time.Minute)
			current = func() *ring.PartitionRing {
				if a, b := grp.PartitionRing(1), pirs.Get(1).PartitionRing(); a != b {
					run.Violation(c, "partition-watcher/group-members-disagree", "the watchers group and its partition-instance rings hand out different rings for the same member at one quiescent point", nil)
				}
				if grp.PartitionRing(0).PartitionsCount() != 1 {
					run.Violation(c, "partition-watcher/group-mixes-members", "the other member of the group no longer shows its own single partition", nil)
				}
				return pirs.Get(1).PartitionRing()
			}
			run.Count("watcher_histories_through_a_group", 1)
		}
		if err := services.StartAndAwaitRunning(context.Background(), svc); err != nil {
			run.Inconclusive(err.Error())
			return
		}
		defer services.StopAndAwaitTerminated(context.Background(), svc) //nolint
		var updates []string
		shardQs := [][2]any{{"t-1", 1}, {"t-2", 2}, {"t-1", 3}, {"t-3", 0}}
		steps := 8 + rng.IntN(25)
		for step := 0; step < steps; step++ {
			if rng.IntN(3) == 0 {
				time.Sleep(time.Duration(1+rng.IntN(60)) * time.Second)
			}
			now = time.Now().Unix()
			var pids []int
			for id := range d.Partitions {
				pids = append(pids, int(id))
			}
			sort.Ints(pids)
			switch k := rng.IntN(7); {
			case k == 0 || len(pids) == 0:
				d.AddPartition(int32(np), ring.PartitionPending, time.Unix(now, 0))
				updates = append(updates, fmt.Sprintf("add partition %d", np))
				np++
			case k == 1 && len(pids) > 1:
				pid := int32(pids[rng.IntN(len(pids))])
				delete(d.Partitions, pid)
				updates = append(updates, fmt.Sprintf("remove partition %d", pid))
			case k == 2:
				id := fmt.Sprintf("owner-%d", rng.IntN(4))
				d.AddOrUpdateOwner(id, ring.OwnerActive, int32(pids[rng.IntN(len(pids))]), time.Unix(now, 0))
				updates = append(updates, "owner "+id)
			case k == 3:
				id := fmt.Sprintf("owner-%d", rng.IntN(4))
				d.RemoveOwner(id)
				updates = append(updates, "remove owner "+id)
			case k == 4:
				updates = append(updates, "identical descriptor")
			default:
				pid := int32(pids[rng.IntN(len(pids))])
				p := d.Partitions[pid]
				p.State = ring.PartitionState(1 + rng.IntN(3))
				p.StateTimestamp = now - int64(rng.IntN(30))
				d.Partitions[pid] = p
				updates = append(updates, fmt.Sprintf("state partition %d -> %v", pid, p.State))
			}
			st.Put("harness", pkey, d.Clone())
			synctest.Wait()
			var lbQs []lookbackQ
			for i := 0; i < 3; i++ {
				q := shardQs[rng.IntN(len(shardQs))]
				lbQs = append(lbQs, lookbackQ{q[0].(string), q[1].(int), time.Duration([]int{10, 60, 250}[rng.IntN(3)]) * time.Second, time.Unix(now+int64(rng.IntN(120))-60, 0)})
			}
			// look-back periods with a sub-second part, queried at sub-second instants aimed at the second in which
			// some partition last changed state (window start = that second, give or take one)
			var stamps []int64
			for _, p := range d.Partitions {
				stamps = append(stamps, p.StateTimestamp)
			}
			sort.Slice(stamps, func(i, j int) bool { return stamps[i] < stamps[j] })
			for i := 0; i < 4 && len(stamps) > 0; i++ {
				q := shardQs[rng.IntN(len(shardQs))]
				period := []time.Duration{1500 * time.Millisecond, 10700 * time.Millisecond, 900 * time.Millisecond}[rng.IntN(3)]
				ts := stamps[rng.IntN(len(stamps))]
				at := time.Unix(ts+int64(period/time.Second)+int64(rng.IntN(3))-1, int64([]int{0, 200, 700}[rng.IntN(3)])*int64(time.Millisecond))
				lbQs = append(lbQs, lookbackQ{q[0].(string), q[1].(int), period, at})
				if rng.IntN(2) == 0 { // the same query again one second earlier or later: served from the cache
					lbQs = append(lbQs, lookbackQ{q[0].(string), q[1].(int), period, at.Add(time.Duration(rng.IntN(3)-1) * time.Second)})
				}
			}
			keys := []uint32{0, rng.Uint32(), rng.Uint32()}
			fresh, err := ring.NewPartitionRing(*d.Clone().(*ring.PartitionRingDesc))
			if err != nil {
				run.Inconclusive(err.Error())
				return
			}
			want := partAnswers(fresh, shardQs, lbQs, keys)
			for round := 0; round < 2; round++ {
				got := partAnswers(current(), shardQs, lbQs, keys)
				for k, wv := range want {
					if got[k] != wv {
						api := k
						if i := strings.Index(k, "("); i > 0 {
							api = k[:i]
						}
						run.Violation(c, "partition-watcher/stale-answer/"+api, fmt.Sprintf("%s: watcher's ring (cache size %d, round %d) differs from a fresh uncached partition ring", k, cacheSize, round), map[string]any{"query": k, "watcher": got[k], "fresh": wv, "updates": updates})
					}
				}
				run.Count("answers_compared", int64(len(want)))
			}
			run.EvalH(vt.Mix(vt.Hash64(strings.Join(updates, ";")), uint64(step), 99), true)
		}
	})
}

func TestC13(t *testing.T) {
	run := vt.NewRun("C13", "exploration")
	run.SetRule("case = one comparison point in a history: a long-lived ring.Ring (subring caches on) watching a recording store receives random descriptor updates (heartbeat-only, state-only, tokens, zone, address, registration time, read-only flag/time, per-instance versions, add/remove, identical), and after every update and quiescence every read API (Get x ops x boundary keys, GetAllHealthy, GetReplicationSetForOperation, ShuffleShard and ShuffleShardWithLookback at non-monotonic query times incl. the instance descriptors and lookups inside the subring, GetInstance/State/HasInstance, counts per zone, zones, token ranges, GetSubringForOperationStates), asked twice (second round from caches), is compared as canonical strings with a client freshly built from the latest descriptor with caches disabled; the same for PartitionRingWatcher (map and LRU caches of size 1-3) against a fresh PartitionRing. non-trivial: every comparison point; distinct by update history prefix.")
	run.ForEachT(t, "ring-history", vt.N(200, 6000), func(t *testing.T, c vt.CaseID, rng *rand.Rand, s *vt.Slot) {
		s.Enter(c, "crash/ring-history")
		runHistory(t, run, c, rng, 0)
		s.Leave()
	})
	run.ForEachT(t, "partition-watcher", vt.N(300, 8000), func(t *testing.T, c vt.CaseID, rng *rand.Rand, s *vt.Slot) {
		s.Enter(c, "crash/partition-watcher")
		runWatcherHistory(t, run, c, rng)
		s.Leave()
	})
	run.Finish(t)
}

// TestC13Race: readers run concurrently with the updates (race detector on); comparisons at quiescent points.
func TestC13Race(t *testing.T) {
	run := vt.NewRun("C13", "exploration")
	run.SetRule("the same histories with 4-8 reader goroutines querying (and cleaning the shard cache of) the long-lived client while updates flow, under the race detector; comparisons with a fresh client at quiescent points.")
	run.ForEachT(t, "ring-history-race", vt.N(60, 1500), func(t *testing.T, c vt.CaseID, rng *rand.Rand, s *vt.Slot) {
		s.Enter(c, "crash/ring-history-race")
		runHistory(t, run, c, rng, 4+rng.IntN(5))
		s.Leave()
	})
	run.Finish(t)
}

// TestC13Hooks: the hook points hold a reader between "subring computed" and "subring cached" while a
// topology update is installed, and an updater between "classified" and "installed" while readers fill
// the cache. Runs serially (the hook callback is process-wide).
// parkStrategy is the default replication strategy with a callback boundary: when armed, the next Filter call parks
// (inside a lookup, i.e. while the ring object being read holds its read lock) until the gate opens.
type parkStrategy struct {
	ring.ReplicationStrategy
	armed   *atomic.Bool
	reached chan struct{}
	gate    chan struct{}
}

func (p parkStrategy) Filter(instances []ring.InstanceDesc, op ring.Operation, replicationFactor int, heartbeatTimeout time.Duration, zoneAwarenessEnabled bool) ([]ring.InstanceDesc, int, error) {
	if p.armed.CompareAndSwap(true, false) {
		p.reached <- struct{}{}
		<-p.gate
	}
	return p.ReplicationStrategy.Filter(instances, op, replicationFactor, heartbeatTimeout, zoneAwarenessEnabled)
}

// busyShard: a reader is in the middle of a lookup on a cached shuffle shard (parked inside the replication strategy,
// holding that shard's read lock) when an update is installed and a second reader asks the long-lived client for the
// same shard. Whatever the second reader gets - at once or after waiting for the first - must equal a fresh client's
// shard for the latest content.
func busyShard(t *testing.T, run *vt.Run, c vt.CaseID, rng *rand.Rand) {
	synctest.Test(t, func(t *testing.T) {
		za := rng.IntN(2) == 0
		h := &hist{rng: rng, desc: ring.NewDesc(), used: map[uint32]bool{}, zones: []string{"z0", "z1"}}
		now := time.Now().Unix()
		for k := 0; k < 2+rng.IntN(6); k++ {
			h.addInstance(now)
		}
		cfg := rk.Cfg(2, za, 100*time.Second)
		store := rk.NewStore()
		store.RecordGets = false
		store.Put("harness", rk.Key, cloneDesc(h.desc))
		ps := parkStrategy{ring.NewDefaultReplicationStrategy(), &atomic.Bool{}, make(chan struct{}, 1), make(chan struct{})}
		L, stopL, err := rk.StartRingWithStrategy(cfg, store.Client("long-lived"), rk.Key, ps)
		if err != nil {
			run.Inconclusive(err.Error())
			return
		}
		defer stopL()
		id, size := fmt.Sprintf("tenant-%d", rng.IntN(3)), 1+rng.IntN(3)
		period := time.Duration(10+rng.IntN(200)) * time.Second
		lookback := rng.IntN(2) == 0
		shard := func(r *ring.Ring, at time.Time) ring.ReadRing {
			if lookback {
				return r.ShuffleShardWithLookback(id, size, period, at)
			}
			return r.ShuffleShard(id, size)
		}
		S := shard(L, time.Now()) // computed and cached
		time.Sleep(time.Duration(rng.IntN(3))*time.Second + time.Millisecond)
		var updates []string
		if ids := h.ids(); rng.IntN(3) > 0 && len(ids) > 0 {
			// the kinds that keep cached shards and refresh them in place
			iid := ids[rng.IntN(len(ids))]
			in := h.desc.Ingesters[iid]
			switch rng.IntN(3) {
			case 0:
				in.State = ring.InstanceState((int(in.State) + 1 + rng.IntN(3)) % 4)
				updates = append(updates, "state-only "+iid)
			case 1:
				in.Timestamp = time.Now().Unix() - int64(rng.IntN(200))
				updates = append(updates, "heartbeat-only "+iid)
			default:
				in.State = ring.InstanceState((int(in.State) + 1 + rng.IntN(3)) % 4)
				in.Timestamp = time.Now().Unix()
				updates = append(updates, "state+heartbeat "+iid)
			}
			h.desc.Ingesters[iid] = in
		} else {
			updates = append(updates, h.mutate(time.Now().Unix()))
		}
		store.Put("harness", rk.Key, cloneDesc(h.desc))
		synctest.Wait()
		keys := []uint32{0, rng.Uint32(), rng.Uint32()}
		// reader A: in the middle of a lookup on the shard object it got earlier
		ps.armed.Store(true)
		doneA := make(chan struct{})
		go func() {
			defer close(doneA)
			_, _ = S.Get(keys[1], ring.Read, nil, nil, nil)
		}()
		synctest.Wait()
		select {
		case <-ps.reached:
			run.Count("busy_shard_reader_parked", 1)
		default:
			run.Inconclusive("the replication strategy was not reached by a lookup on the shard")
			ps.armed.Store(false)
		}
		// reader B asks for the same shard and reads it
		qAt := time.Now()
		got := map[string]string{}
		var bDone atomic.Bool
		doneB := make(chan struct{})
		go func() {
			defer close(doneB)
			readRingAnswers(shard(L, qAt), keys, "shard.", got)
			bDone.Store(true)
		}()
		// B either finishes without waiting or blocks on the shard's lock (a mutex: not a durable block, so no
		// synctest.Wait here); give it ample opportunity, then let A go
		for i := 0; i < 20000 && !bDone.Load(); i++ {
			runtime.Gosched()
		}
		if bDone.Load() {
			run.Count("busy_shard_second_reader_did_not_wait", 1)
		} else {
			run.Count("busy_shard_second_reader_waited", 1)
		}
		close(ps.gate)
		<-doneA
		<-doneB
		synctest.Wait()
		F, stopF, err := freshRing(h.desc, cfg)
		if err != nil {
			run.Inconclusive(err.Error())
			return
		}
		defer stopF()
		want := map[string]string{}
		readRingAnswers(shard(F, qAt), keys, "shard.", want)
		compare(run, c, got, want, updates, "second reader of a shard that is busy being read")
		run.EvalH(vt.Mix(uint64(c.Idx), 0xb5, 7), true)
	})
}

func TestC13Hooks(t *testing.T) {
	run := vt.NewRun("C13", "exploration")
	run.SetRule("hook-point scenarios (serial): a reader parked at ring.ShuffleShard[WithLookback].computed while an update of a random kind is installed, then released; an updater parked at ring.updateRingState.classified, or at ring.setRingStateFromDesc.computed (new indexes computed, not yet published), while readers populate the caches; afterwards every answer must equal a fresh client's.")
	n := vt.N(400, 8000)
	var hookHits atomic.Int64
	for i := 0; i < n; i++ {
		c := vt.CaseID{Gen: "hooks", Idx: int64(i), Seed: vt.Seed()}
		if rc, ok := vt.ReplayCase(); ok {
			if rc.Gen != "hooks" {
				break
			}
			c = rc
		}
		rng := c.Rand()
		synctest.Test(t, func(t *testing.T) {
			za := rng.IntN(2) == 0
			h := &hist{rng: rng, desc: ring.NewDesc(), used: map[uint32]bool{}, zones: []string{"z0", "z1"}}
			now := time.Now().Unix()
			for k := 0; k < 2+rng.IntN(6); k++ {
				h.addInstance(now)
			}
			cfg := rk.Cfg(2, za, 100*time.Second)
			store := rk.NewStore()
			store.RecordGets = false
			store.Put("harness", rk.Key, cloneDesc(h.desc))
			L, stopL, err := rk.StartRing(cfg, store.Client("long-lived"), rk.Key)
			if err != nil {
				run.Inconclusive(err.Error())
				return
			}
			defer stopL()
			var armed atomic.Value // name of the point to block at
			armed.Store("")
			gate := make(chan struct{})
			reached := make(chan struct{}, 1)
			verifhook.Set(func(name string) {
				if armed.CompareAndSwap(name, "") {
					hookHits.Add(1)
					reached <- struct{}{}
					<-gate
				}
			})
			defer verifhook.Set(nil)
			id, size := fmt.Sprintf("tenant-%d", rng.IntN(3)), 1+rng.IntN(3)
			period := time.Duration(10+rng.IntN(200)) * time.Second
			scenario := rng.IntN(3)
			var updates []string
			switch scenario {
			case 0, 1:
				point := "ring.ShuffleShard.computed"
				if scenario == 1 {
					point = "ring.ShuffleShardWithLookback.computed"
				}
				armed.Store(point)
				done := make(chan struct{})
				go func() {
					defer close(done)
					if scenario == 0 {
						_ = L.ShuffleShard(id, size)
					} else {
						_ = L.ShuffleShardWithLookback(id, size, period, time.Now())
					}
				}()
				synctest.Wait()
				select {
				case <-reached:
				default:
					run.Inconclusive("hook point " + point + " not reached")
				}
				// install an update while the reader holds its computed subring
				time.Sleep(time.Duration(rng.IntN(3))*time.Second + time.Millisecond)
				updates = append(updates, h.mutate(time.Now().Unix()))
				store.Put("harness", rk.Key, cloneDesc(h.desc))
				synctest.Wait()
				close(gate)
				<-done
			default:
				// hold the updater after classification, or after it has computed the new indexes and before it publishes
				// them (with the caches flushed in that same critical section); meanwhile readers fill the caches
				armed.Store([]string{"ring.updateRingState.classified", "ring.setRingStateFromDesc.computed"}[rng.IntN(2)])
				time.Sleep(time.Millisecond)
				updates = append(updates, h.mutate(time.Now().Unix()))
				store.Put("harness", rk.Key, cloneDesc(h.desc))
				synctest.Wait()
				select {
				case <-reached:
					_ = L.ShuffleShard(id, size)
					_ = L.ShuffleShardWithLookback(id, size, period, time.Now())
					close(gate)
				default:
					close(gate) // identical descriptor etc.: no update came through
				}
				synctest.Wait()
			}
			synctest.Wait()
			F, stopF, err := freshRing(h.desc, cfg)
			if err != nil {
				run.Inconclusive(err.Error())
				return
			}
			defer stopF()
			keys := []uint32{0, rng.Uint32()}
			shardQs := [][2]any{{id, size}}
			lbQs := []lookbackQ{{id, size, period, time.Now()}}
			ids := h.ids()
			want := answers(F, ids, keys, shardQs, lbQs)
			got := answers(L, ids, keys, shardQs, lbQs)
			compare(run, c, got, want, updates, fmt.Sprintf("hook scenario %d", scenario))
			run.EvalH(vt.Mix(uint64(i), uint64(scenario), 7), true)
		})
		if _, ok := vt.ReplayCase(); ok {
			break
		}
	}
	for i := 0; i < vt.N(300, 6000); i++ {
		c := vt.CaseID{Gen: "busy-shard", Idx: int64(i), Seed: vt.Seed()}
		if rc, ok := vt.ReplayCase(); ok {
			if rc.Gen != "busy-shard" {
				break
			}
			c = rc
		}
		busyShard(t, run, c, c.Rand())
		if _, ok := vt.ReplayCase(); ok {
			break
		}
	}
	run.SetExtra("hook_points_reached", hookHits.Load())
	if _, replaying := vt.ReplayCase(); hookHits.Load() == 0 && !replaying {
		run.Inconclusive("no hook point was reached")
	}
	run.Finish(t)
}
