package c08

import (
	"context"
	"fmt"
	"math/rand/v2"
	"os"
	"path/filepath"
	"strings"
	"testing"
	"testing/synctest"
	"time"

	"github.com/grafana/dskit/ring"
	"github.com/grafana/dskit/services"

	"github.com/grafana/dskit/kv"

	"verifharness/lcsim"
	"verifharness/recstore"
	"verifharness/simnet"
	"verifharness/vt"
)

var t0 = time.Date(2000, 1, 1, 0, 0, 0, 0, time.UTC)

type identity struct {
	cfg   lcsim.Cfg
	incs  []*lcsim.Inst
	ready map[int]bool // incarnation -> first nil of CheckReady already judged
}

func (id *identity) cur() *lcsim.Inst {
	if len(id.incs) == 0 {
		return nil
	}
	return id.incs[len(id.incs)-1]
}

func randomCfg(rng *rand.Rand, i int, dir string) lcsim.Cfg {
	c := lcsim.Cfg{ID: fmt.Sprintf("ing-%d", i), NumTokens: 1 + rng.IntN(8), Zone: fmt.Sprintf("z%d", rng.IntN(2)), Seed: int64(rng.Uint64() >> 2),
		Heartbeat: time.Duration([]int{5, 5, 2, 0}[rng.IntN(4)]) * time.Second, Unregister: rng.IntN(2) == 0}
	if rng.IntN(3) == 0 {
		c.Kind = "basic"
		c.Observe = time.Duration([]int{0, 0, 3, 3, 12, 32}[rng.IntN(6)]) * time.Second
		c.RegisterState = []ring.InstanceState{ring.ACTIVE, ring.PENDING, ring.JOINING}[rng.IntN(3)]
		c.LeaveOnStop = rng.IntN(2) == 0
		if rng.IntN(3) == 0 {
			c.AutoForget = time.Duration(20+rng.IntN(40)) * time.Second
		}
	} else {
		c.Kind = "full"
		c.JoinAfter = time.Duration([]int{0, 1, 10, 300}[rng.IntN(4)]) * time.Second
		c.Observe = time.Duration([]int{0, 0, 3, 7}[rng.IntN(4)]) * time.Second
		c.ReadinessRing = rng.IntN(2) == 0
		c.MinReady = time.Duration([]int{0, 0, 15}[rng.IntN(3)]) * time.Second
	}
	if rng.IntN(4) == 0 {
		c.TokensFile = filepath.Join(dir, c.ID+".tokens")
	}
	return c
}

func currentDesc(st *recstore.Store) *ring.Desc {
	v, _ := st.Client("harness-read").Get(context.Background(), lcsim.Key)
	return ring.GetOrCreateRingDesc(v)
}

func runScript(t *testing.T, run *vt.Run, c vt.CaseID, rng *rand.Rand, gossip bool) {
	dir, err := os.MkdirTemp(vt.WorkDir(), "c08-")
	if err != nil {
		run.Inconclusive(err.Error())
		return
	}
	defer os.RemoveAll(dir)
	synctest.Test(t, func(t *testing.T) {
		st := recstore.New(ring.GetCodec())
		rlog := &lcsim.RecLog{}
		var gnet *simnet.Net
		if gossip {
			// the gossip store rejects writes that change nothing and merges instead of replacing
			var err error
			gnet, err = simnet.New(1, simnet.DefaultConfig(time.Hour))
			if err != nil {
				run.Inconclusive(err.Error())
				return
			}
			defer gnet.Stop()
		}
		curDesc := func() *ring.Desc {
			if gossip {
				v, _ := gnet.Client(0, ring.GetCodec()).Get(context.Background(), lcsim.Key)
				return ring.GetOrCreateRingDesc(v)
			}
			return currentDesc(st)
		}
		n := 1 + rng.IntN(5)
		ids := make([]*identity, n)
		sharedSeed := int64(rng.Uint64() >> 2)
		sameSeed := rng.IntN(2) == 0
		for i := range ids {
			ids[i] = &identity{cfg: randomCfg(rng, i, dir), ready: map[int]bool{}}
			if sameSeed && !(gossip && ids[i].cfg.TokensFile != "") {
				// identical generators draw identical candidates: only the taken-token check keeps them apart.
				// (Not for tokens-file identities on the merging store: a restart loads its old tokens from the file
				// without asking who holds them now, and the store's conflict resolution then strips them from the
				// other instance - the known finding's territory, not this property's.)
				ids[i].cfg.Seed = sharedSeed
			}
		}
		var all []*lcsim.Inst
		victims := map[string]bool{}
		var marks []lcsim.Mark
		var acts []string
		log := func(f string, a ...any) {
			acts = append(acts, fmt.Sprintf("t=%v ", time.Since(t0))+fmt.Sprintf(f, a...))
		}
		var cfgs []lcsim.Cfg
		for _, id := range ids {
			cfgs = append(cfgs, id.cfg)
		}
		viol := func(sig, what string, extra map[string]any) {
			d := map[string]any{"lifecyclers": cfgs, "actions": acts}
			for k, v := range extra {
				d[k] = v
			}
			run.Violation(c, sig, what, d)
		}
		startInc := func(id *identity) {
			writer := fmt.Sprintf("%s#%d", id.cfg.ID, len(id.incs)+1)
			var inner kv.Client
			var handle *recstore.Handle
			if gossip {
				inner = gnet.Client(0, ring.GetCodec())
			} else {
				handle = st.Client(writer)
				inner = handle
				// conflicts force the retry path of the CAS functions (never many in a row)
				if rng.IntN(2) == 0 {
					handle.SetFaults(recstore.Faults{Conflict: func(k int) bool { return k%5 == 2 }})
				}
			}
			in, err := lcsim.NewWithClient(id.cfg, len(id.incs)+1, &lcsim.RecProxy{Client: inner, Writer: writer, Log: rlog})
			if err != nil {
				run.Inconclusive(err.Error())
				return
			}
			in.Handle = handle
			d := curDesc()
			e, exists := d.Ingesters[id.cfg.ID]
			fileTokens := false
			if id.cfg.TokensFile != "" {
				if tk, err := ring.LoadTokensFromFile(id.cfg.TokensFile); err == nil && len(tk) > 0 {
					fileTokens = true
				}
			}
			in.FreshJoin = (!exists || len(e.Tokens) == 0) && !fileTokens
			in.EntryAbsentAtStart = !exists
			if exists && len(e.Tokens) == id.cfg.NumTokens && id.cfg.TokensFile == "" && e.State != ring.LEFT {
				in.InheritedTokens = append([]uint32(nil), e.Tokens...)
			}
			id.incs = append(id.incs, in)
			all = append(all, in)
			if err := in.Start(); err != nil {
				viol("start-failed", err.Error(), nil)
			}
			log("start %s (%s)", in.Writer, id.cfg.Kind)
		}
		// steal: while a full lifecycler observes its tokens (JOINING), somebody else ends up with one of them
		// (what token-conflict resolution on a gossip ring does): an environment write moves the smallest token
		// of its entry to a foreign entry. The lifecycler has to notice at the end of the observe period, replace
		// the token and keep observing.
		thefts := 0
		stolenFrom := map[string]bool{}
		steal := func() {
			for _, id := range ids {
				in := id.cur()
				if gossip || in == nil || in.Full == nil || id.cfg.Observe <= 0 || in.Svc().State() != services.Running || in.Full.GetState() != ring.JOINING {
					continue
				}
				e, ok := curDesc().Ingesters[id.cfg.ID]
				if !ok || e.State != ring.JOINING || len(e.Tokens) < 2 {
					continue
				}
				// only on the replacing store and only at a quiescent point (no virtual time passes): the lifecycler
				// reads the edited entry at its next observe tick. (An edit landing between the token check and the
				// ACTIVE write of one tick would be kept as it is by the lifecycler; that window is outside the
				// statement, which has no third-party editors.)
				var cl kv.Client = st.Client("thief")
				thefts++
				tid := fmt.Sprintf("thief-%d", thefts)
				stolen := uint32(0)
				err := cl.CAS(context.Background(), lcsim.Key, func(in interface{}) (interface{}, bool, error) {
					d := ring.GetOrCreateRingDesc(in)
					ve, ok := d.Ingesters[id.cfg.ID]
					if !ok || len(ve.Tokens) < 2 || ve.State != ring.JOINING {
						return nil, false, nil
					}
					now := time.Now().Unix()
					stolen = ve.Tokens[0]
					ve.Tokens = append([]uint32(nil), ve.Tokens[1:]...)
					d.Ingesters[id.cfg.ID] = ve
					d.Ingesters[tid] = ring.InstanceDesc{Id: tid, Addr: tid, Zone: "z9", State: ring.ACTIVE, Timestamp: now, RegisteredTimestamp: now, Tokens: []uint32{stolen}}
					return d, true, nil
				})
				synctest.Wait()
				if err == nil && stolen != 0 {
					stolenFrom[id.cfg.ID] = true
					run.Count("tokens_stolen_during_observe", 1)
					log("token %d of %s moved to %s while it observes", stolen, id.cfg.ID, tid)
				}
				return
			}
		}
		// the same for a basic lifecycler that is observing its tokens (service Starting): the token it loses has to be
		// replaced before it reports Running; judged at the first quiescent point at which the service is Running
		type basicTheft struct {
			in     *lcsim.Inst
			stolen uint32
			judged bool
			at     time.Time
		}
		var basicThefts []*basicTheft
		stealBasic := func() {
			for _, id := range ids {
				in := id.cur()
				if gossip || in == nil || in.Basic == nil || id.cfg.Observe <= 0 || in.Svc().State() != services.Starting {
					continue
				}
				e, ok := curDesc().Ingesters[id.cfg.ID]
				if !ok || len(e.Tokens) < 2 || len(e.Tokens) != id.cfg.NumTokens || fmt.Sprint(e.Tokens) != fmt.Sprint([]uint32(in.Basic.GetTokens())) {
					continue
				}
				dup := false
				for _, bt := range basicThefts {
					dup = dup || bt.in == in
				}
				if dup {
					continue
				}
				thefts++
				tid := fmt.Sprintf("thief-%d", thefts)
				stolen := uint32(0)
				err := st.Client("thief").CAS(context.Background(), lcsim.Key, func(x interface{}) (interface{}, bool, error) {
					d := ring.GetOrCreateRingDesc(x)
					ve, ok := d.Ingesters[id.cfg.ID]
					if !ok || len(ve.Tokens) < 2 {
						return nil, false, nil
					}
					now := time.Now().Unix()
					stolen = ve.Tokens[0]
					ve.Tokens = append([]uint32(nil), ve.Tokens[1:]...)
					d.Ingesters[id.cfg.ID] = ve
					d.Ingesters[tid] = ring.InstanceDesc{Id: tid, Addr: tid, Zone: "z9", State: ring.ACTIVE, Timestamp: now, RegisteredTimestamp: now, Tokens: []uint32{stolen}}
					return d, true, nil
				})
				synctest.Wait()
				if err == nil && stolen != 0 {
					stolenFrom[id.cfg.ID] = true
					basicThefts = append(basicThefts, &basicTheft{in: in, stolen: stolen, at: time.Now()})
					run.Count("tokens_stolen_during_basic_observe", 1)
					log("token %d of %s (basic) moved to %s while it observes", stolen, id.cfg.ID, tid)
				}
				return
			}
		}
		judgeBasicThefts := func() {
			for _, bt := range basicThefts {
				if bt.judged || bt.in.Svc().State() != services.Running {
					continue
				}
				bt.judged = true
				e, ok := curDesc().Ingesters[bt.in.Cfg.ID]
				if !ok {
					continue // removed by somebody else (auto-forget): nothing to judge
				}
				// an entry that was removed by somebody else in between (auto-forget of a peer: the victim may have
				// heart-beating disabled) is re-registered with the remembered tokens, as it has to be: not judged
				absent := false
				for _, ver := range st.VersionsOf(lcsim.Key) {
					if ver.At.Before(bt.at) {
						continue
					}
					if x, derr := ring.GetCodec().Decode(ver.Bytes); derr == nil {
						if _, present := ring.GetOrCreateRingDesc(x).Ingesters[bt.in.Cfg.ID]; !present {
							absent = true
						}
					}
				}
				if absent {
					run.Count("basic_observe_thefts_not_judged_entry_was_forgotten", 1)
					continue
				}
				run.Count("basic_observe_thefts_judged", 1)
				sortedUnique := true
				for i := 1; i < len(e.Tokens); i++ {
					sortedUnique = sortedUnique && e.Tokens[i-1] < e.Tokens[i]
				}
				// holding the lost token again is fine once nobody else holds it (the foreign entry may have been
				// forgotten meanwhile, and a seeded generator then picks the same free token again); holding it
				// while another entry still has it is not
				holds := false
				for _, tk := range e.Tokens {
					if tk != bt.stolen {
						continue
					}
					for oid, oe := range curDesc().Ingesters {
						if oid == bt.in.Cfg.ID {
							continue
						}
						for _, ot := range oe.Tokens {
							holds = holds || ot == bt.stolen
						}
					}
				}
				if len(e.Tokens) != bt.in.Cfg.NumTokens || !sortedUnique || holds {
					// the victim's token list over every version written, with the writer of each change
					var hist []string
					prevT := ""
					for _, ver := range st.VersionsOf(lcsim.Key) {
						x, derr := ring.GetCodec().Decode(ver.Bytes)
						if derr != nil {
							continue
						}
						ve, present := ring.GetOrCreateRingDesc(x).Ingesters[bt.in.Cfg.ID]
						cur := fmt.Sprintf("present=%v state=%v tokens=%v", present, ve.State, ve.Tokens)
						if cur != prevT {
							hist = append(hist, fmt.Sprintf("t=%v v%d by %s: %s", ver.At.Sub(t0), ver.N, ver.Writer, cur))
							prevT = cur
						}
					}
					acts = append(acts, hist...)
					acts = append(acts, fmt.Sprintf("config: %+v", bt.in.Cfg))
					run.Violation(c, "basic-observe/lost-token-not-replaced", fmt.Sprintf("%s lost token %d to another instance while observing; it reports Running with tokens %v (configured %d; wrong count, unsorted, or a token another entry still holds)", bt.in.Writer, bt.stolen, e.Tokens, bt.in.Cfg.NumTokens), map[string]any{"actions": acts})
				}
			}
		}
		steps := 15 + rng.IntN(40)
		for step := 0; step < steps; step++ {
			judgeBasicThefts()
			if rng.IntN(10) == 0 {
				steal()
			}
			if rng.IntN(8) == 0 {
				stealBasic()
			}
			id := ids[rng.IntN(n)]
			in := id.cur()
			before := rlog.N()
			switch r := rng.IntN(16); {
			case r <= 2:
				if in == nil || in.Svc().State() == services.Terminated || in.Svc().State() == services.Failed {
					startInc(id)
				}
			case r == 3:
				if in != nil && in.Svc().State() == services.Running {
					in.Stop()
					log("stop %s", in.Writer)
				}
			case r == 4 && in != nil && in.Svc().State() == services.Running:
				// external state change: the documented hand-over flow, plus illegal requests that must be refused
				ctx, cancel := context.WithTimeout(context.Background(), time.Second)
				if in.Full != nil {
					cur := in.Full.GetState()
					target := ring.InstanceState(rng.IntN(5))
					legal := (cur == ring.PENDING && target == ring.JOINING) || (cur == ring.JOINING && target == ring.PENDING)
					// joining -> active / pending -> active by hand only when the instance already holds tokens
					d := curDesc()
					if (cur == ring.JOINING || cur == ring.PENDING) && target == ring.ACTIVE && len(d.Ingesters[id.cfg.ID].Tokens) == id.cfg.NumTokens {
						legal = true
					}
					allowedByTable := (cur == ring.PENDING && target == ring.JOINING) || (cur == ring.JOINING && target == ring.PENDING) || (cur == ring.JOINING && target == ring.ACTIVE) || (cur == ring.PENDING && target == ring.ACTIVE) || (cur == ring.ACTIVE && target == ring.LEAVING)
					if legal || !allowedByTable {
						err := in.Full.ChangeState(ctx, target)
						log("%s.ChangeState(%v) from %v: %v", in.Writer, target, cur, err)
						if !allowedByTable && err == nil && cur != target {
							viol("illegal-state-change-accepted", fmt.Sprintf("ChangeState %v -> %v was accepted", cur, target), nil)
						}
						marks = append(marks, lcsim.Mark{From: before, To: rlog.N(), Kind: "external-state", Writer: in.Writer})
					}
				} else if in.Basic.IsRegistered() {
					cur := in.Basic.GetState()
					next := map[ring.InstanceState]ring.InstanceState{ring.PENDING: ring.JOINING, ring.JOINING: ring.ACTIVE, ring.ACTIVE: ring.LEAVING}
					if tgt, ok := next[cur]; ok {
						err := in.Basic.ChangeState(ctx, tgt)
						log("%s.ChangeState(%v) from %v: %v", in.Writer, tgt, cur, err)
					}
				}
				cancel()
			case r == 5 && in != nil && in.Svc().State() == services.Running:
				ctx, cancel := context.WithTimeout(context.Background(), time.Second)
				ro := rng.IntN(2) == 0
				var err error
				if in.Full != nil {
					err = in.Full.ChangeReadOnlyState(ctx, ro)
				} else if in.Basic.IsRegistered() {
					err = in.Basic.ChangeReadOnlyState(ctx, ro)
				}
				cancel()
				log("%s read-only=%v: %v", in.Writer, ro, err)
			case r == 6 && in != nil && in.Full != nil && in.Svc().State() == services.Running && in.Full.GetState() == ring.JOINING:
				// token hand-over from another registered instance
				other := ids[rng.IntN(n)]
				d := curDesc()
				if other != id && len(d.Ingesters[other.cfg.ID].Tokens) > 0 && d.Ingesters[other.cfg.ID].State == ring.LEAVING && len(d.Ingesters[id.cfg.ID].Tokens) == 0 {
					victims[other.cfg.ID] = true
					ctx, cancel := context.WithTimeout(context.Background(), time.Second)
					err := in.Full.ClaimTokensFor(ctx, other.cfg.ID)
					cancel()
					marks = append(marks, lcsim.Mark{From: before, To: rlog.N(), Kind: "claim:" + other.cfg.ID, Writer: in.Writer})
					log("%s.ClaimTokensFor(%s): %v", in.Writer, other.cfg.ID, err)
				}
			case r <= 9 && !gossip && in != nil && in.Full != nil && in.Svc().State() == services.Running && in.StopAt.IsZero():
				// readiness poll; only the first nil of an incarnation is judged (it latches)
				getsBefore := len(st.GetsCopy())
				err := in.Full.CheckReady(context.Background())
				run.Count("readiness_polls", 1)
				if err == nil && !id.ready[in.Incarnation] {
					id.ready[in.Incarnation] = true
					run.Count("readiness_first_nil", 1)
					now := time.Now()
					if in.Full.GetState() != ring.ACTIVE {
						viol("ready-while-not-active", fmt.Sprintf("%s reports ready in state %v", in.Writer, in.Full.GetState()), nil)
					}
					gets := st.GetsCopy()
					var served *recstore.GetEvent
					for k := len(gets) - 1; k >= getsBefore; k-- {
						if gets[k].Writer == in.Writer {
							served = &gets[k]
							break
						}
					}
					if served == nil {
						viol("ready-without-reading-the-ring", in.Writer+" reports ready without having read the ring", nil)
					} else {
						var d *ring.Desc
						for _, v := range st.VersionsOf(lcsim.Key) {
							if v.N == served.N && !v.Deleted {
								d = ring.GetOrCreateRingDesc(st.Decode(v))
							}
						}
						if d == nil {
							viol("ready-on-empty-ring", in.Writer+" reports ready although the ring it read is empty", nil)
						} else {
							own, ok := d.Ingesters[id.cfg.ID]
							if !id.cfg.ReadinessRing && (!ok || own.State != ring.ACTIVE || now.Sub(time.Unix(own.Timestamp, 0)) > time.Minute) {
								viol("ready-without-active-healthy-entry", fmt.Sprintf("%s reports ready but its entry in the version it read is %+v (present=%v)", in.Writer, own, ok), map[string]any{"ring": lcsim.Canon(d)})
							}
							// it must hold tokens: the last entry this incarnation wrote
							hasTokens := false
							vs := st.VersionsOf(lcsim.Key)
							for k := len(vs) - 1; k >= 0; k-- {
								if vs[k].Writer == in.Writer && !vs[k].Deleted {
									if e, ok := ring.GetOrCreateRingDesc(st.Decode(vs[k])).Ingesters[id.cfg.ID]; ok {
										hasTokens = len(e.Tokens) > 0
										break
									}
								}
							}
							if !hasTokens {
								viol("ready-without-tokens", in.Writer+" reports ready but the last entry it wrote holds no tokens", map[string]any{"ring": lcsim.Canon(d)})
							}
							if id.cfg.ReadinessRing {
								for oid, e := range d.Ingesters {
									if e.State != ring.ACTIVE || now.Sub(time.Unix(e.Timestamp, 0)) > time.Minute {
										viol("ready-with-unhealthy-member", fmt.Sprintf("%s reports ready although %s is %v with heartbeat age %v in the version it read", in.Writer, oid, e.State, now.Sub(time.Unix(e.Timestamp, 0))), map[string]any{"ring": lcsim.Canon(d)})
									}
								}
							}
						}
					}
				}
			default:
				d := time.Duration(1+rng.IntN(12)) * time.Second
				if rng.IntN(5) == 0 {
					d = time.Duration(30+rng.IntN(90)) * time.Second
				}
				time.Sleep(d)
			}
			synctest.Wait()
		}
		end := time.Now()
		for _, id := range ids {
			if in := id.cur(); in != nil {
				in.Stop()
			}
		}
		synctest.Wait()
		time.Sleep(30 * time.Second)
		synctest.Wait()
		st.Release()
		synctest.Wait()
		ck := lcsim.Checker{Store: st, Insts: all, Marks: marks, T0: t0, EndAt: end, ClaimVictims: victims, Records: rlog.Records(), CheckInherited: !gossip, Stolen: stolenFrom}
		findings, stats := ck.Check()
		for _, f := range findings {
			viol(f.Sig, f.What, f.Detail)
		}
		for k, v := range stats {
			run.Count(k, int64(v))
		}
		run.EvalH(vt.Hash64(strings.Join(acts, ";")+fmt.Sprint(cfgs)), stats["own_writes"] > 3)
		if stats["state_edges"] > 2 && run.WantSample() {
			run.Sample(map[string]any{"lifecyclers": cfgs, "actions": acts[:min(len(acts), 25)], "log_stats": stats})
		}
	})
}

func TestC08(t *testing.T) {
	run := vt.NewRun("C08", "exploration")
	run.SetRule("case = one action script on 1-5 real lifecyclers (full Lifecycler: join-after 0/1/10/300 s, observe 0/3/7 s, tokens file or not, unregister on/off, readiness ring check on/off, min-ready 0/15 s; BasicLifecycler with InstanceRegisterDelegate under TokensPersistency/LeaveOnStopping/AutoForget delegates; heartbeat period 5/2 s or disabled) sharing one recording store inside a synctest bubble: start, stop, restart of the same identity, external state changes (hand-over flow and illegal requests), read-only toggles, token claims, readiness polls, time advances, injected CAS conflicts; afterwards a log checker over every written ring version with its writer and virtual commit time checks: only the own entry edited (hand-over and auto-forget excepted), legal state edges within an incarnation and across restarts, heartbeat stamp monotone and written once per period while running, registration time kept, (re)registration stamped now, token lists sorted/unique, an incarnation that found its complete token list in the ring turns ACTIVE with exactly that list (recording store), a freshly joined instance turns ACTIVE with exactly the configured number of tokens none of which was another instance's token in the version it read; the first nil of CheckReady per incarnation is judged against the ring version served to that very call. non-trivial = more than 3 own writes; distinct by (configuration, action script).")
	run.ForEachT(t, "scripts", vt.N(500, 15000), func(t *testing.T, c vt.CaseID, rng *rand.Rand, s *vt.Slot) {
		s.Enter(c, "crash/scripts")
		runScript(t, run, c, rng, false)
		s.Leave()
	})
	run.ForEachT(t, "scripts-gossip", vt.N(250, 8000), func(t *testing.T, c vt.CaseID, rng *rand.Rand, s *vt.Slot) {
		s.Enter(c, "crash/scripts-gossip")
		runScript(t, run, c, rng, true)
		s.Leave()
	})
	if vt.GenEnabled("scripts") {
		if _, ok := vt.ReplayCase(); !ok && (run.Counter("fresh_activations") == 0 || run.Counter("readiness_first_nil") == 0) {
			run.Inconclusive("no fresh activation or no readiness observed")
		}
	}
	run.Finish(t)
}

// TestC08Race: a tenth of the scripts again under the race detector.
func TestC08Race(t *testing.T) {
	run := vt.NewRun("C08", "exploration")
	run.SetRule("the same action scripts under the Go race detector (same log checker).")
	run.ForEachT(t, "scripts-race", vt.N(60, 1500), func(t *testing.T, c vt.CaseID, rng *rand.Rand, s *vt.Slot) {
		s.Enter(c, "crash/scripts-race")
		runScript(t, run, c, rng, c.Idx%3 == 0)
		s.Leave()
	})
	run.Finish(t)
}
