package c20

import (
	"context"
	"fmt"
	"math/rand/v2"
	"net"
	"net/http"
	"net/http/httptest"
	"os"
	"sort"
	"strings"
	"sync"
	"testing"

	"google.golang.org/grpc"
	"google.golang.org/grpc/credentials/insecure"
	"google.golang.org/grpc/health"
	healthpb "google.golang.org/grpc/health/grpc_health_v1"
	"google.golang.org/grpc/metadata"
	"google.golang.org/grpc/test/bufconn"

	"github.com/grafana/dskit/middleware"
	"github.com/grafana/dskit/tenant"
	"github.com/grafana/dskit/user"

	"verifharness/vt"
)

// ---- grammar specification (from the documentation) -----------------------

func safeByte(b byte) bool {
	switch {
	case b >= 'a' && b <= 'z', b >= 'A' && b <= 'Z', b >= '0' && b <= '9':
		return true
	}
	return strings.IndexByte("!-_.*'()", b) >= 0
}

func validID(id string) bool {
	if len(id) > 150 || id == "." || id == ".." {
		return false
	}
	for i := 0; i < len(id); i++ {
		if !safeByte(id[i]) {
			return false
		}
	}
	return true
}

type gram struct {
	ids      []string // identifiers, metadata cut at the first ':'
	allValid bool
	allEqual bool
	sorted   []string // sorted duplicate-free
}

func parse(s string) gram {
	var g gram
	g.allValid, g.allEqual = true, true
	for _, part := range strings.Split(s, "|") {
		id := part
		if i := strings.IndexByte(part, ':'); i >= 0 {
			id = part[:i]
		}
		g.ids = append(g.ids, id)
		if !validID(id) {
			g.allValid = false
		}
		if id != g.ids[0] {
			g.allEqual = false
		}
	}
	set := map[string]bool{}
	for _, id := range g.ids {
		set[id] = true
	}
	for id := range set {
		g.sorted = append(g.sorted, id)
	}
	sort.Strings(g.sorted)
	return g
}

// checkResolvers compares the real resolvers with the grammar on one header value.
// report(sig, what) is called for each disagreement.
func checkResolvers(s string, report func(sig, what string, detail map[string]any)) (nontrivial bool) {
	g := parse(s)
	ctx := user.InjectOrgID(context.Background(), s)
	var single string
	var multi []string
	var errS, errM, errX error
	var xid string
	if p, st := vt.Recover(func() {
		single, errS = tenant.TenantID(ctx)
		multi, errM = tenant.TenantIDs(ctx)
		xid, _, errX = tenant.ExtractWithMetadata(ctx)
	}); p != nil {
		report("resolver-panic", "a resolver panicked", map[string]any{"input": s, "panic": fmt.Sprint(p), "stack": st})
		return true
	}
	d := func() map[string]any {
		return map[string]any{"input": s, "input_bytes": []byte(s), "identifiers": g.ids, "single": single, "single_err": fmt.Sprint(errS), "multi": multi, "multi_err": fmt.Sprint(errM), "with_metadata": xid, "with_metadata_err": fmt.Sprint(errX)}
	}
	// acceptance implies validity
	if errS == nil && !validID(single) {
		report("single/accepted-invalid-identifier", "TenantID returned an identifier outside the grammar", d())
	}
	if errM == nil {
		for _, id := range multi {
			if !validID(id) {
				report("multi/accepted-invalid-identifier", "TenantIDs returned an identifier outside the grammar", d())
			}
		}
		if !g.allValid {
			report("multi/accepted-invalid-identifier", "TenantIDs accepted a header one of whose identifiers is invalid", d())
		}
	}
	if errX == nil && (!validID(xid) || !validID(g.ids[0]) || xid != g.ids[0]) {
		report("with-metadata/accepted-invalid-identifier", "ExtractWithMetadata returned an identifier outside the grammar or not the supplied one", d())
	}
	if errX == nil && !g.allEqual {
		report("with-metadata/accepted-different-tenants", "ExtractWithMetadata succeeded although the identifiers differ", d())
	}
	// single
	if errS == nil && (!g.allEqual || single != g.ids[0]) {
		report("single/accepted-different-tenants", "TenantID succeeded although the identifiers are not all equal, or returned another identifier", d())
	}
	if errS != nil && g.allValid && g.allEqual {
		report("single/rejected-valid", "TenantID failed although all identifiers are valid and equal", d())
	}
	// multi
	if errM != nil && g.allValid {
		report("multi/rejected-valid", "TenantIDs failed although all identifiers are valid", d())
	}
	if errM == nil && fmt.Sprint(multi) != fmt.Sprint(g.sorted) {
		report("multi/not-sorted-set", "TenantIDs is not the sorted duplicate-free list of the supplied identifiers", d())
	}
	// agreement
	if errS == nil && (errM != nil || len(multi) != 1 || multi[0] != single) {
		report("resolvers-disagree", "TenantID succeeded with t but TenantIDs is not [t]", d())
	}
	if errM == nil && len(multi) == 1 && (errS != nil || single != multi[0]) {
		report("resolvers-disagree", "TenantIDs returned [t] but TenantID did not succeed with t", d())
	}
	// other entry points
	if s != "" { // an empty header is "no org id" for the HTTP entry point
		req := httptest.NewRequest("GET", "http://example/", nil)
		req.Header.Set(user.OrgIDHeaderName, s)
		var hid string
		var hctx context.Context
		var herr error
		if p, st := vt.Recover(func() { hid, hctx, herr = tenant.ExtractTenantIDFromHTTPRequest(req) }); p != nil {
			report("resolver-panic", "ExtractTenantIDFromHTTPRequest panicked", map[string]any{"input": s, "panic": fmt.Sprint(p), "stack": st})
		} else {
			if (herr == nil) != (errS == nil) || (herr == nil && hid != single) {
				report("resolvers-disagree", "ExtractTenantIDFromHTTPRequest disagrees with TenantID on the same org id", map[string]any{"input": s, "http_id": hid, "http_err": fmt.Sprint(herr), "single": single, "single_err": fmt.Sprint(errS)})
			}
			if herr == nil {
				if cid, err := tenant.TenantID(hctx); err != nil || cid != hid {
					report("resolvers-disagree", "ExtractTenantIDFromHTTPRequest returned another identifier than TenantID resolves from the context it returned", map[string]any{"input": s, "http_id": hid, "context_id": cid})
				}
			}
		}
	}
	if ids, err := tenant.TenantIDsFromOrgID(s); (err == nil) != (errM == nil) || (err == nil && fmt.Sprint(ids) != fmt.Sprint(multi)) {
		report("resolvers-disagree", "TenantIDsFromOrgID disagrees with TenantIDs", d())
	}
	mr := tenant.NewMultiResolver()
	if id, err := mr.TenantID(ctx); (err == nil) != (errS == nil) || id != single {
		report("resolvers-disagree", "MultiResolver.TenantID disagrees with TenantID", d())
	}
	return len(g.ids) > 1 || !g.allValid || strings.Contains(s, ":")
}

// ---- propagation hops ------------------------------------------------------

type hop func(ctx context.Context) (context.Context, error)

func hopHTTP(ctx context.Context) (context.Context, error) {
	req := httptest.NewRequest("GET", "http://example/", nil)
	if err := user.InjectOrgIDIntoHTTPRequest(ctx, req); err != nil {
		return nil, err
	}
	_, nctx, err := user.ExtractOrgIDFromHTTPRequest(req)
	if err != nil {
		return nil, err
	}
	return nctx, nil
}

func hopHTTPMiddleware(ctx context.Context) (context.Context, error) {
	req := httptest.NewRequest("GET", "http://example/", nil)
	if err := user.InjectOrgIDIntoHTTPRequest(ctx, req); err != nil {
		return nil, err
	}
	var got context.Context
	h := middleware.AuthenticateUser.Wrap(http.HandlerFunc(func(w http.ResponseWriter, r *http.Request) { got = r.Context() }))
	rec := httptest.NewRecorder()
	h.ServeHTTP(rec, req)
	if got == nil {
		return nil, fmt.Errorf("rejected with status %d", rec.Code)
	}
	return got, nil
}

func outToIn(ctx context.Context) context.Context {
	md, _ := metadata.FromOutgoingContext(ctx)
	return metadata.NewIncomingContext(context.Background(), md.Copy())
}

func hopGRPC(ctx context.Context) (context.Context, error) {
	octx, err := user.InjectIntoGRPCRequest(ctx)
	if err != nil {
		return nil, err
	}
	_, nctx, err := user.ExtractFromGRPCRequest(outToIn(octx))
	if err != nil {
		return nil, err
	}
	return nctx, nil
}

func hopGRPCInterceptors(ctx context.Context) (context.Context, error) {
	var sent context.Context
	err := middleware.ClientUserHeaderInterceptor(ctx, "/m", nil, nil, nil, func(ctx context.Context, _ string, _, _ interface{}, _ *grpc.ClientConn, _ ...grpc.CallOption) error {
		sent = ctx
		return nil
	})
	if err != nil {
		return nil, err
	}
	var got context.Context
	_, err = middleware.ServerUserHeaderInterceptor(outToIn(sent), nil, nil, func(ctx context.Context, _ interface{}) (interface{}, error) {
		got = ctx
		return nil, nil
	})
	if err != nil {
		return nil, err
	}
	return got, nil
}

type fakeSS struct {
	grpc.ServerStream
	ctx context.Context
}

func (f fakeSS) Context() context.Context { return f.ctx }

func hopGRPCStreamInterceptors(ctx context.Context) (context.Context, error) {
	var sent context.Context
	_, err := middleware.StreamClientUserHeaderInterceptor(ctx, nil, nil, "/m", func(ctx context.Context, _ *grpc.StreamDesc, _ *grpc.ClientConn, _ string, _ ...grpc.CallOption) (grpc.ClientStream, error) {
		sent = ctx
		return nil, nil
	})
	if err != nil {
		return nil, err
	}
	var got context.Context
	err = middleware.StreamServerUserHeaderInterceptor(nil, fakeSS{ctx: outToIn(sent)}, nil, func(_ interface{}, ss grpc.ServerStream) error {
		got = ss.Context()
		return nil
	})
	if err != nil {
		return nil, err
	}
	return got, nil
}

var hopNames = []string{"http", "http-middleware", "grpc", "grpc-unary-interceptors", "grpc-stream-interceptors",
	"grpc-over-same-id", "grpc-over-empty-value", "grpc-over-other-id", "grpc-over-two-values", "grpc-over-unrelated-keys",
	"http-over-same-id", "http-over-empty-value", "http-over-other-id", "http-over-two-values", "http-over-unrelated-keys"}

// hops over a carrier that already holds something under the org-id key (a proxy that forwarded headers, a context
// that went through an earlier injection): the same identifier, an empty value, a different one, several values, or
// only unrelated keys. Such a hop may be refused; if it goes through, the identifier must arrive unchanged.
func preexisting(id string, variant int) []string {
	switch variant % 5 {
	case 0:
		return []string{id}
	case 1:
		return []string{""}
	case 2:
		return []string{id + "x"}
	case 3:
		return []string{id, id}
	}
	return nil
}

func hopGRPCPre(variant int) hop {
	return func(ctx context.Context) (context.Context, error) {
		id, err := user.ExtractOrgID(ctx)
		if err != nil {
			return nil, err
		}
		md := metadata.MD{"x-unrelated": {"1"}}
		if v := preexisting(id, variant); v != nil {
			md["x-scope-orgid"] = v
		}
		octx, err := user.InjectIntoGRPCRequest(metadata.NewOutgoingContext(ctx, md))
		if err != nil {
			return nil, err
		}
		_, nctx, err := user.ExtractFromGRPCRequest(outToIn(octx))
		if err != nil {
			return nil, err
		}
		return nctx, nil
	}
}

func hopHTTPPre(variant int) hop {
	return func(ctx context.Context) (context.Context, error) {
		id, err := user.ExtractOrgID(ctx)
		if err != nil {
			return nil, err
		}
		req := httptest.NewRequest("GET", "http://example/", nil)
		req.Header.Set("X-Unrelated", "1")
		for _, v := range preexisting(id, variant) {
			req.Header.Add(user.OrgIDHeaderName, v)
		}
		if err := user.InjectOrgIDIntoHTTPRequest(ctx, req); err != nil {
			return nil, err
		}
		_, nctx, err := user.ExtractOrgIDFromHTTPRequest(req)
		if err != nil {
			return nil, err
		}
		return nctx, nil
	}
}

var hops = []hop{hopHTTP, hopHTTPMiddleware, hopGRPC, hopGRPCInterceptors, hopGRPCStreamInterceptors,
	hopGRPCPre(0), hopGRPCPre(1), hopGRPCPre(2), hopGRPCPre(3), hopGRPCPre(4),
	hopHTTPPre(0), hopHTTPPre(1), hopHTTPPre(2), hopHTTPPre(3), hopHTTPPre(4)}

// real wire
type wire struct {
	httpSrv  *httptest.Server
	httpSeen chan string
	conn     *grpc.ClientConn
	grpcSrv  *grpc.Server
	grpcSeen chan string
}

func newWire() (*wire, error) {
	w := &wire{httpSeen: make(chan string, 1), grpcSeen: make(chan string, 1)}
	w.httpSrv = httptest.NewServer(middleware.AuthenticateUser.Wrap(http.HandlerFunc(func(rw http.ResponseWriter, r *http.Request) {
		id, err := user.ExtractOrgID(r.Context())
		if err != nil {
			id = "<none>"
		}
		w.httpSeen <- id
	})))
	lis := bufconn.Listen(1 << 20)
	capture := func(ctx context.Context, req interface{}, _ *grpc.UnaryServerInfo, handler grpc.UnaryHandler) (interface{}, error) {
		id, err := user.ExtractOrgID(ctx)
		if err != nil {
			id = "<none>"
		}
		w.grpcSeen <- id
		return handler(ctx, req)
	}
	w.grpcSrv = grpc.NewServer(grpc.ChainUnaryInterceptor(middleware.ServerUserHeaderInterceptor, capture))
	healthpb.RegisterHealthServer(w.grpcSrv, health.NewServer())
	go w.grpcSrv.Serve(lis)
	conn, err := grpc.NewClient("passthrough:///bufnet", grpc.WithContextDialer(func(ctx context.Context, _ string) (net.Conn, error) { return lis.DialContext(ctx) }),
		grpc.WithTransportCredentials(insecure.NewCredentials()), grpc.WithUnaryInterceptor(middleware.ClientUserHeaderInterceptor))
	if err != nil {
		return nil, err
	}
	w.conn = conn
	return w, nil
}

func (w *wire) close() {
	w.httpSrv.Close()
	w.conn.Close()
	w.grpcSrv.Stop()
}

func (w *wire) httpHop(ctx context.Context) (string, error) {
	req, _ := http.NewRequest("GET", w.httpSrv.URL, nil)
	if err := user.InjectOrgIDIntoHTTPRequest(ctx, req); err != nil {
		return "", err
	}
	resp, err := http.DefaultClient.Do(req)
	if err != nil {
		return "", err
	}
	resp.Body.Close()
	if resp.StatusCode != 200 {
		return "", fmt.Errorf("status %d", resp.StatusCode)
	}
	return <-w.httpSeen, nil
}

func (w *wire) grpcHop(ctx context.Context) (string, error) {
	_, err := healthpb.NewHealthClient(w.conn).Check(ctx, &healthpb.HealthCheckRequest{})
	if err != nil {
		return "", err
	}
	return <-w.grpcSeen, nil
}

var alphabetBytes = []byte{'a', 'Z', '0', '.', '|', ':', '=', '/', 0, 0x80, 0xFF, ' ', '-'}

func TestC20(t *testing.T) {
	run := vt.NewRun("C20", "exploration")
	run.SetRule("case = one organisation header value resolved by TenantID / TenantIDs / ExtractWithMetadata and compared with the documented grammar (split on '|', cut at first ':', byte-class table, <=150 bytes, not '.'/'..'), or one chain of inject/extract hops (HTTP header, HTTP auth middleware, gRPC metadata, unary and stream interceptors; real loopback HTTP and bufconn gRPC for valid identifiers) that must fail or preserve the value exactly, or one request without org id that must be rejected. Strings: all strings of length <=4 over a 13-byte alphabet {a Z 0 . | : = / NUL 0x80 0xFF space -} exhaustively, lists of 0-5 pooled identifiers, seeded random bytes. non-trivial = more than one identifier, an invalid identifier, or metadata present (resolvers); chain length >= 2 (hops). distinct by input string / (value, hop sequence).")

	// exhaustive short strings: 13^0 + ... + 13^4 = 30941
	total := 0
	for l, n := 0, 1; l <= 4; l, n = l+1, n*13 {
		total += n
	}
	if vt.Thorough() {
		total += 13 * 13 * 13 * 13 * 13 // length 5 too
	}
	run.SetExtra("exhaustive_short_strings", total)
	const chunk = 512
	run.ForEach("short", (total+chunk-1)/chunk, func(c vt.CaseID, rng *rand.Rand, s *vt.Slot) {
		for i := int(c.Idx) * chunk; i < (int(c.Idx)+1)*chunk && i < total; i++ {
			// decode index -> string (length-prefixed enumeration)
			n, l, pow := i, 0, 1
			for n >= pow {
				n -= pow
				pow *= 13
				l++
			}
			b := make([]byte, l)
			for k := 0; k < l; k++ {
				b[k] = alphabetBytes[n%13]
				n /= 13
			}
			str := string(b)
			nt := checkResolvers(str, func(sig, what string, d map[string]any) { run.Violation(c, "resolver/"+sig, what, d) })
			run.Eval("s|"+str, nt)
		}
	})

	pool := []string{"a", "b", "tenant-1", "Z9", ".", "..", "...", "", strings.Repeat("x", 150), strings.Repeat("x", 151), "a/b", "a b", "a:k=v", "a:k=v:z=1", "b:bad", "a:", "tenant-1:x=y", "é", "a\x00", "(ok)", "it's", "star*", "a=b", "a|", "!",
		// well-formed multi-byte runes whose low byte looks harmless (U+0161, Cyrillic, U+012E) and runes in the middle
		"\u0161", "\u0430\u0431\u0432", "\u0441", "a\u012eb", "tenant\u0441", "\u4e2d\u6587", "x\U0001F600"}
	run.ForEach("lists", vt.N(30000, 600000), func(c vt.CaseID, rng *rand.Rand, s *vt.Slot) {
		n := rng.IntN(6)
		var parts []string
		for i := 0; i < n; i++ {
			p := pool[rng.IntN(len(pool))]
			if rng.IntN(3) == 0 && len(parts) > 0 {
				p = parts[rng.IntN(len(parts))] // duplicates
				if rng.IntN(2) == 0 {
					if j := strings.IndexByte(p, ':'); j >= 0 {
						p = p[:j]
					} else {
						p += ":m=1"
					}
				}
			}
			parts = append(parts, p)
		}
		str := strings.Join(parts, "|")
		nt := checkResolvers(str, func(sig, what string, d map[string]any) { run.Violation(c, "resolver/"+sig, what, d) })
		run.Eval("l|"+str, nt)
		if c.Idx < 4 {
			g := parse(str)
			run.Sample(map[string]any{"kind": "resolver", "input": str, "identifiers": g.ids, "all_valid": g.allValid, "all_equal": g.allEqual})
		}
	})
	// metadata built through the Metadata API and attached to an identifier: both resolvers see through it, the parsed
	// metadata is what was set (sorted, unique keys, last value wins), and joining identifiers is undone by resolution
	run.ForEach("metadata-roundtrip", vt.N(20000, 300000), func(c vt.CaseID, rng *rand.Rand, s *vt.Slot) {
		viol := func(sig, what string, d map[string]any) { run.Violation(c, "metadata/"+sig, what, d) }
		alpha := "abcXYZ019-_"
		word := func(minLen int) string {
			b := make([]byte, minLen+rng.IntN(4))
			for i := range b {
				b[i] = alpha[rng.IntN(len(alpha))]
			}
			return string(b)
		}
		ids := []string{"a", "tenant-1", "Z9", "(ok)", "it's", "star*", "!", strings.Repeat("x", 150), "a.b", "..."}
		t := ids[rng.IntN(len(ids))]
		model := map[string]string{}
		var md tenant.Metadata
		var sets []string
		for n := rng.IntN(5); n > 0; n-- {
			k, v := word(1), word(0)
			if len(model) > 0 && rng.IntN(3) == 0 {
				for k2 := range model { // overwrite an existing key
					k = k2
					break
				}
			}
			if rng.IntN(2) == 0 {
				md.Set(k, v)
			} else {
				md = md.With(k, v)
			}
			model[k] = v
			sets = append(sets, k+"="+v)
		}
		keys := make([]string, 0, len(model))
		for k := range model {
			keys = append(keys, k)
		}
		sort.Strings(keys)
		wantEnc := ""
		for _, k := range keys {
			wantEnc += ":" + k + "=" + model[k]
		}
		org := md.WithTenant(t)
		d := func() map[string]any { return map[string]any{"tenant": t, "sets": sets, "org_id": org} }
		run.Eval("m|"+org, len(model) > 0)
		if md.Encode() != wantEnc || md.IsEmpty() != (len(model) == 0) {
			viol("encode", fmt.Sprintf("Metadata encodes as %q, the pairs set give %q", md.Encode(), wantEnc), d())
		}
		if org != t+wantEnc {
			viol("with-tenant", fmt.Sprintf("WithTenant gives %q", org), d())
		}
		var gotKeys []string
		for k, v := range md.Iter() {
			gotKeys = append(gotKeys, k)
			if mv, ok := model[k]; !ok || mv != v {
				viol("iter", fmt.Sprintf("Iter yields %s=%s, set was %q (present %v)", k, v, mv, ok), d())
			}
		}
		if fmt.Sprint(gotKeys) != fmt.Sprint(keys) {
			viol("iter", fmt.Sprintf("Iter yields keys %v, want the sorted unique keys %v", gotKeys, keys), d())
		}
		for _, k := range keys {
			if v, ok := md.Get(k); !ok || v != model[k] || !md.Has(k) {
				viol("get", fmt.Sprintf("Get(%s) = %q,%v; set was %q", k, v, ok, model[k]), d())
			}
		}
		if md.Has("no-such-key") {
			viol("get", "Has reports a key that was never set", d())
		}
		ctx := user.InjectOrgID(context.Background(), org)
		id1, err1 := tenant.TenantID(ctx)
		idsN, errN := tenant.TenantIDs(ctx)
		idsM, errM := tenant.NewMultiResolver().TenantIDs(ctx)
		idX, mdX, errX := tenant.ExtractWithMetadata(ctx)
		if err1 != nil || id1 != t {
			viol("single-resolver", fmt.Sprintf("TenantID = %q, %v for a valid identifier with API-built metadata", id1, err1), d())
		}
		if errN != nil || len(idsN) != 1 || idsN[0] != t || errM != nil || fmt.Sprint(idsM) != fmt.Sprint(idsN) {
			viol("multi-resolver", fmt.Sprintf("TenantIDs = %v, %v; MultiResolver.TenantIDs = %v, %v", idsN, errN, idsM, errM), d())
		}
		if errX != nil || idX != t || mdX.Encode() != wantEnc {
			viol("extract-with-metadata", fmt.Sprintf("ExtractWithMetadata = %q, %q, %v", idX, mdX.Encode(), errX), d())
		}
		if tenant.TrimMetadata(org) != t {
			viol("trim", fmt.Sprintf("TrimMetadata = %q", tenant.TrimMetadata(org)), d())
		}
		// the same tenant twice with different metadata is still one tenant; joined identifiers resolve to their set
		other := ids[rng.IntN(len(ids))]
		list := []string{org, t + ":zz=1", other, t}
		rng.Shuffle(len(list), func(i, j int) { list[i], list[j] = list[j], list[i] })
		joined := tenant.JoinTenantIDs(list)
		want := []string{t}
		if other != t {
			want = append(want, other)
		}
		sort.Strings(want)
		got, err := tenant.TenantIDsFromOrgID(joined)
		if err != nil || fmt.Sprint(got) != fmt.Sprint(want) {
			viol("join-then-resolve", fmt.Sprintf("TenantIDsFromOrgID(JoinTenantIDs(%q)) = %v, %v; want %v", list, got, err, want), d())
		}
		_, errS := tenant.TenantID(user.InjectOrgID(context.Background(), joined))
		if (errS == nil) != (other == t) {
			viol("single-resolver", fmt.Sprintf("TenantID on %q: error %v, identifiers all equal: %v", joined, errS, other == t), d())
		}
	})
	run.ForEach("random-bytes", vt.N(30000, 600000), func(c vt.CaseID, rng *rand.Rand, s *vt.Slot) {
		l := rng.IntN(12)
		if rng.IntN(20) == 0 {
			l = 140 + rng.IntN(25)
		}
		b := make([]byte, l)
		for i := range b {
			switch rng.IntN(4) {
			case 0:
				b[i] = byte(rng.IntN(256))
			case 1:
				b[i] = alphabetBytes[rng.IntN(len(alphabetBytes))]
			default:
				b[i] = "abcXYZ019!-_.*'()"[rng.IntN(17)]
			}
		}
		str := string(b)
		nt := checkResolvers(str, func(sig, what string, d map[string]any) { run.Violation(c, "resolver/"+sig, what, d) })
		run.Eval("r|"+str, nt)
	})

	// hop chains, in process, arbitrary strings
	run.ForEach("chains", vt.N(20000, 300000), func(c vt.CaseID, rng *rand.Rand, s *vt.Slot) {
		var val string
		switch rng.IntN(4) {
		case 0:
			val = pool[rng.IntN(len(pool))]
		case 1:
			val = pool[rng.IntN(len(pool))] + "|" + pool[rng.IntN(len(pool))]
		case 2:
			b := make([]byte, rng.IntN(10))
			for i := range b {
				b[i] = byte(rng.IntN(256))
			}
			val = string(b)
		default:
			val = " padded\t"
		}
		ctx := user.InjectOrgID(context.Background(), val)
		n := 1 + rng.IntN(8)
		var seq []string
		for i := 0; i < n; i++ {
			h := rng.IntN(len(hops))
			seq = append(seq, hopNames[h])
			var nctx context.Context
			var err error
			p, st := vt.Recover(func() { nctx, err = hops[h](ctx) })
			if p != nil {
				run.Violation(c, "hop/panic", "a propagation hop panicked", map[string]any{"value": val, "hops": seq, "panic": fmt.Sprint(p), "stack": st})
				break
			}
			if err != nil {
				run.Count("hops_rejected", 1)
				break
			}
			got, gerr := user.ExtractOrgID(nctx)
			if gerr != nil || got != val {
				run.Violation(c, "hop/value-changed/"+hopNames[h], fmt.Sprintf("org id %q arrived as %q after hop %s", val, got, hopNames[h]), map[string]any{"value": val, "value_bytes": []byte(val), "arrived": got, "hops": seq, "err": fmt.Sprint(gerr)})
				break
			}
			run.Count("hops_preserved", 1)
			ctx = nctx
		}
		run.Eval("c|"+val+"|"+strings.Join(seq, ","), len(seq) >= 2)
		if c.Idx < 2 {
			run.Sample(map[string]any{"kind": "chain", "value": val, "hops": seq})
		}
	})

	// requests without an org id are rejected, never defaulted
	run.ForEach("no-org-id", 1, func(c vt.CaseID, rng *rand.Rand, s *vt.Slot) {
		bad := func(where string, ctx context.Context, err error) {
			has := false
			if ctx != nil {
				_, e := user.ExtractOrgID(ctx)
				has = e == nil
			}
			run.Eval("n|"+where, true)
			if err == nil || has {
				run.Violation(c, "no-org-id/accepted/"+where, "a request without an org id was accepted or given one", map[string]any{"where": where, "err": fmt.Sprint(err), "context_has_org_id": has})
			}
		}
		req := httptest.NewRequest("GET", "http://example/", nil)
		_, ctx, err := user.ExtractOrgIDFromHTTPRequest(req)
		bad("http-extract", ctx, err)
		req.Header.Set(user.OrgIDHeaderName, "")
		_, ctx, err = user.ExtractOrgIDFromHTTPRequest(req)
		bad("http-extract-empty-header", ctx, err)
		called := false
		rec := httptest.NewRecorder()
		middleware.AuthenticateUser.Wrap(http.HandlerFunc(func(http.ResponseWriter, *http.Request) { called = true })).ServeHTTP(rec, httptest.NewRequest("GET", "http://example/", nil))
		if called || rec.Code != http.StatusUnauthorized {
			run.Violation(c, "no-org-id/accepted/http-middleware", "auth middleware let a request without org id through", map[string]any{"status": rec.Code})
		}
		_, ctx, err = user.ExtractFromGRPCRequest(context.Background())
		bad("grpc-extract-no-metadata", ctx, err)
		_, ctx, err = user.ExtractFromGRPCRequest(metadata.NewIncomingContext(context.Background(), metadata.MD{}))
		bad("grpc-extract-empty-metadata", ctx, err)
		_, ctx, err = user.ExtractFromGRPCRequest(metadata.NewIncomingContext(context.Background(), metadata.MD{"x-scope-orgid": {"a", "b"}}))
		bad("grpc-extract-two-values", ctx, err)
		_, err = middleware.ServerUserHeaderInterceptor(context.Background(), nil, nil, func(ctx context.Context, _ interface{}) (interface{}, error) {
			t.Error("handler called without org id")
			return nil, nil
		})
		bad("grpc-server-interceptor", nil, err)
		_, err = user.InjectIntoGRPCRequest(context.Background())
		bad("grpc-inject-without-id", nil, err)
		err = user.InjectOrgIDIntoHTTPRequest(context.Background(), req)
		bad("http-inject-without-id", nil, err)
		_, err = tenant.TenantID(context.Background())
		bad("tenant-id-no-org", nil, err)
		_, err = tenant.TenantIDs(context.Background())
		bad("tenant-ids-no-org", nil, err)
		// conflicting ids already present must not be overwritten silently
		req2 := httptest.NewRequest("GET", "http://example/", nil)
		req2.Header.Set(user.OrgIDHeaderName, "other")
		if err := user.InjectOrgIDIntoHTTPRequest(user.InjectOrgID(context.Background(), "mine"), req2); err == nil {
			run.Violation(c, "hop/overwrote-different-org-id/http", "injecting over a different org id succeeded", nil)
		}
		octx := metadata.NewOutgoingContext(user.InjectOrgID(context.Background(), "mine"), metadata.MD{"x-scope-orgid": {"other"}})
		if _, err := user.InjectIntoGRPCRequest(octx); err == nil {
			run.Violation(c, "hop/overwrote-different-org-id/grpc", "injecting over a different org id succeeded", nil)
		}
	})

	// real wire hops for valid identifiers
	if vt.GenEnabled("wire") {
		if os.Getenv("VERIF_NO_WIRE") == "" {
			w, err := newWire()
			if err != nil {
				run.Inconclusive("wire setup: " + err.Error())
			} else {
				var mu sync.Mutex
				run.ForEach("wire", 1, func(c vt.CaseID, rng *rand.Rand, s *vt.Slot) {
					mu.Lock()
					defer mu.Unlock()
					nvals := vt.N(150, 2000)
					for i := 0; i < nvals; i++ {
						k := 1 + rng.IntN(3)
						var parts []string
						for j := 0; j < k; j++ {
							l := 1 + rng.IntN(12)
							if rng.IntN(15) == 0 {
								l = 150
							}
							b := make([]byte, l)
							for x := range b {
								b[x] = "abcdefXYZ0189!-_.*'()"[rng.IntN(21)]
							}
							id := string(b)
							if id == "." || id == ".." {
								id = "a"
							}
							if rng.IntN(4) == 0 {
								id += ":k=v"
							}
							parts = append(parts, id)
						}
						val := strings.Join(parts, "|")
						ctx := user.InjectOrgID(context.Background(), val)
						for hopi := 0; hopi < 1+rng.IntN(3); hopi++ {
							var got string
							var err error
							name := "wire-http"
							if rng.IntN(2) == 0 {
								got, err = w.httpHop(ctx)
							} else {
								name = "wire-grpc"
								got, err = w.grpcHop(ctx)
							}
							run.Eval("w|"+val+"|"+name+fmt.Sprint(hopi), true)
							if err != nil {
								run.Violation(c, "hop/valid-id-rejected/"+name, "a valid org id did not pass a real "+name+" hop", map[string]any{"value": val, "err": err.Error()})
								break
							}
							if got != val {
								run.Violation(c, "hop/value-changed/"+name, fmt.Sprintf("org id %q arrived as %q over %s", val, got, name), map[string]any{"value": val, "arrived": got})
								break
							}
							run.Count("wire_hops_preserved", 1)
							ctx = user.InjectOrgID(context.Background(), got)
						}
					}
				})
				w.close()
			}
		}
	}
	run.Finish(t)
}

// FuzzResolvers is run by the thorough tier with -test.fuzz: coverage-guided
// inputs against the same grammar oracle.
func FuzzResolvers(f *testing.F) {
	for _, s := range []string{"", "a", "a|b", "a:k=v|a", ".", "..|..", "a/b", strings.Repeat("x", 151), "a\x00|b", "b|a|b:z=1"} {
		f.Add(s)
	}
	f.Fuzz(func(t *testing.T, s string) {
		checkResolvers(s, func(sig, what string, d map[string]any) {
			path := ""
			if dir := os.Getenv("VERIF_REPLAYS"); dir != "" {
				path = fmt.Sprintf("%s/C20-fuzz-%016x.json", dir, vt.Hash64(sig+s))
				os.WriteFile(path, []byte(fmt.Sprintf("{\"property\":\"C20\",\"signature\":%q,\"what\":%q,\"case\":{\"gen\":\"fuzz\",\"idx\":0,\"seed\":0},\"detail\":{\"input_bytes\":%v}}", "resolver/"+sig, what, strings.ReplaceAll(fmt.Sprint([]byte(s)), " ", ","))), 0o644)
			}
			t.Fatalf("\nVIOLATION property=C20 replay=%s\n  what: %s [resolver/%s] input=%q", path, what, sig, s)
		})
	})
}
