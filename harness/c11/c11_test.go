package c11

import (
	"context"
	"errors"
	"fmt"
	"math/rand/v2"
	"sort"
	"strings"
	"sync"
	"sync/atomic"
	"testing"
	"testing/synctest"
	"time"

	"github.com/grafana/dskit/ring"

	"verifharness/vt"
)

const (
	oOK = iota
	oFail
	oTerminal
)

type inst struct {
	ID   string `json:"id"`
	Zone string `json:"zone"`
}

type qcase struct {
	Variant             string         `json:"variant"` // quorum | nocancel
	Instances           []inst         `json:"instances"`
	ZoneAware           bool           `json:"zone_aware_flag"`
	MaxErrors           int            `json:"max_errors"`
	MaxUnavailableZones int            `json:"max_unavailable_zones"`
	Minimize            bool           `json:"minimize_requests"`
	HedgeSeconds        int            `json:"hedging_delay_s"`
	Sorter              string         `json:"zone_sorter"`
	TerminalPred        bool           `json:"terminal_predicate"`
	ReplicaCount        bool           `json:"include_replica_count"`
	Outcomes            map[string]int `json:"outcomes"`
	Order               []string       `json:"release_priority"`
	Actions             []string       `json:"actions"` // rel | tick | cancel
	CanceledErrs        bool           `json:"failures_wrap_context_canceled"`
}

func (q qcase) zoneMode() bool { return q.ZoneAware || q.MaxUnavailableZones > 0 }

type termErr struct{ id string }

func (e termErr) Error() string { return "terminal error from " + e.id }

// failErr is what a failing call returns; in a third of the cases it wraps context.Canceled although nobody
// cancelled anything (a downstream call gave up on its own), which must not change any decision.
type failErr struct {
	id       string
	canceled bool
}

func (e failErr) Error() string { return "failure from " + e.id }
func (e failErr) Unwrap() error {
	if e.canceled {
		return context.Canceled
	}
	return nil
}

func (q qcase) fail(id string) failErr { return failErr{id, q.CanceledErrs} }

var errCallerGaveUp = errors.New("caller gave up")

// ---- specification ------------------------------------------------------------

type verdict int

const (
	undecided verdict = iota
	success
	failure
)

// decideRead evaluates the statement's criterion on the answers received so far.
// Returns the verdict and, on success, the ids whose results must be returned.
func decideRead(q qcase, answered map[string]int) (verdict, []string) {
	if !q.zoneMode() {
		succ, fail := 0, 0
		var okIDs []string
		for _, in := range q.Instances {
			o, ok := answered[in.ID]
			if !ok {
				continue
			}
			if o == oOK {
				succ++
				okIDs = append(okIDs, in.ID)
			} else {
				fail++
			}
		}
		if fail > q.MaxErrors {
			return failure, nil
		}
		if succ >= len(q.Instances)-q.MaxErrors {
			return success, okIDs
		}
		return undecided, nil
	}
	zones := map[string][]string{}
	for _, in := range q.Instances {
		zones[in.Zone] = append(zones[in.Zone], in.ID)
	}
	okZones, failedZones := 0, 0
	var okIDs []string
	for _, ids := range zones {
		complete, failed := true, false
		for _, id := range ids {
			o, ok := answered[id]
			if !ok {
				complete = false
			} else if o != oOK {
				failed = true
			}
		}
		if failed {
			failedZones++
		} else if complete {
			okZones++
			okIDs = append(okIDs, ids...)
		}
	}
	if failedZones > q.MaxUnavailableZones {
		return failure, nil
	}
	min := len(zones) - q.MaxUnavailableZones
	if min < 0 {
		min = 0
	}
	if okZones >= min {
		return success, okIDs
	}
	return undecided, nil
}

// ---- one stepped execution ----------------------------------------------------

type callState struct {
	id       string
	ctx      context.Context
	started  int64
	released bool
	gate     chan struct{}
	replicas int
	hasCount bool
}

func runQuorum(t *testing.T, run *vt.Run, c vt.CaseID, q qcase) {
	viol := func(sig, what string, extra map[string]any) {
		d := map[string]any{"case": q}
		for k, v := range extra {
			d[k] = v
		}
		run.Violation(c, q.Variant+"/"+sig, what, d)
	}
	rs := ring.ReplicationSet{MaxErrors: q.MaxErrors, MaxUnavailableZones: q.MaxUnavailableZones, ZoneAwarenessEnabled: q.ZoneAware}
	for _, in := range q.Instances {
		rs.Instances = append(rs.Instances, ring.InstanceDesc{Id: in.ID, Addr: "addr-" + in.ID, Zone: in.Zone})
	}
	cfg := ring.DoUntilQuorumConfig{MinimizeRequests: q.Minimize, HedgingDelay: time.Duration(q.HedgeSeconds) * time.Second, IncludeReplicaCount: q.ReplicaCount}
	if q.TerminalPred {
		cfg.IsTerminalError = func(err error) bool { var te termErr; return errors.As(err, &te) }
		if q.CanceledErrs {
			// the negative style: "whatever is not an ordinary failure is terminal" - true for a nil error as
			// well, which the implementation has no business asking about
			cfg.IsTerminalError = func(err error) bool { var fe failErr; return !errors.As(err, &fe) }
		}
	}
	var sorterOut []string
	switch q.Sorter {
	case "asc":
		cfg.ZoneSorter = func(z []string) []string { sort.Strings(z); sorterOut = append([]string(nil), z...); return z }
	case "desc":
		cfg.ZoneSorter = func(z []string) []string {
			sort.Sort(sort.Reverse(sort.StringSlice(z)))
			sorterOut = append([]string(nil), z...)
			return z
		}
	}
	var seq atomic.Int64
	var mu sync.Mutex
	calls := map[string]*callState{}
	callCount := map[string]int{}
	cleaned := map[string]int{}
	f := func(ctx context.Context, d *ring.InstanceDesc) (string, error) {
		cs := &callState{id: d.Id, ctx: ctx, started: seq.Add(1), gate: make(chan struct{})}
		cs.replicas, cs.hasCount = ring.GetAvailableReplicas(ctx)
		mu.Lock()
		callCount[d.Id]++
		if callCount[d.Id] == 1 {
			calls[d.Id] = cs
		}
		mu.Unlock()
		<-cs.gate
		switch q.Outcomes[d.Id] {
		case oFail:
			return "", q.fail(d.Id)
		case oTerminal:
			return "", termErr{d.Id}
		}
		return "res-" + d.Id, nil
	}
	cleanup := func(s string) {
		mu.Lock()
		cleaned[s]++
		mu.Unlock()
	}
	ctx, cancel := context.WithCancelCause(context.Background())
	defer cancel(nil)
	type ret struct {
		res []string
		err error
	}
	retCh := make(chan ret, 1)
	go func() {
		var res []string
		var err error
		if q.Variant == "quorum" {
			res, err = ring.DoUntilQuorum(ctx, rs, cfg, f, cleanup)
		} else {
			res, err = ring.DoUntilQuorumWithoutSuccessfulContextCancellation(ctx, rs, cfg, func(ctx context.Context, d *ring.InstanceDesc, _ context.CancelCauseFunc) (string, error) {
				return f(ctx, d)
			}, cleanup)
		}
		retCh <- ret{res, err}
	}()
	synctest.Wait()
	var returned *ret
	poll := func() {
		select {
		case r := <-retCh:
			returned = &r
		default:
		}
	}
	poll()

	answered := map[string]int{}
	ticks := 0
	cancelled := false
	var trace []string
	zonesOf := map[string]string{}
	for _, in := range q.Instances {
		zonesOf[in.ID] = in.Zone
	}
	numZones := func() int {
		m := map[string]bool{}
		for _, in := range q.Instances {
			m[in.Zone] = true
		}
		return len(m)
	}()
	startedIDs := func() []string {
		mu.Lock()
		defer mu.Unlock()
		var s []string
		for id := range calls {
			s = append(s, id)
		}
		sort.Strings(s)
		return s
	}
	// upper bound on started calls with request minimisation
	checkStartBound := func(where string) {
		st := startedIDs()
		mu.Lock()
		for id, n := range callCount {
			if n > 1 {
				viol("instance-called-twice", fmt.Sprintf("instance %s called %d times", id, n), map[string]any{"trace": trace})
			}
		}
		mu.Unlock()
		if !q.Minimize {
			return
		}
		if !q.zoneMode() {
			fails := 0
			for _, o := range answered {
				if o != oOK {
					fails++
				}
			}
			bound := len(q.Instances) - q.MaxErrors + fails + ticks
			if len(st) > bound {
				viol("minimisation/too-many-calls", fmt.Sprintf("%d calls started, at most minimal %d + %d failures + %d hedging ticks allowed (%s)", len(st), len(q.Instances)-q.MaxErrors, fails, ticks, where), map[string]any{"started": st, "trace": trace})
			}
		} else {
			failedZones := map[string]bool{}
			for id, o := range answered {
				if o != oOK {
					failedZones[zonesOf[id]] = true
				}
			}
			startedZones := map[string]bool{}
			for _, id := range st {
				startedZones[zonesOf[id]] = true
			}
			min := numZones - q.MaxUnavailableZones
			if min < 0 {
				min = 0
			}
			bound := min + len(failedZones) + ticks
			if len(startedZones) > bound {
				viol("minimisation/too-many-zones", fmt.Sprintf("%d zones started, at most %d + %d failed zones + %d hedging ticks allowed (%s)", len(startedZones), min, len(failedZones), ticks, where), map[string]any{"started": st, "trace": trace})
			}
			// custom zone order: started zones must be a prefix of the sorter's order
			if sorterOut != nil {
				k := len(startedZones)
				for i := 0; i < k && i < len(sorterOut); i++ {
					if !startedZones[sorterOut[i]] {
						viol("minimisation/zone-order-ignored", "zones were not started in the order returned by the ZoneSorter", map[string]any{"sorter_order": sorterOut, "started": st, "trace": trace})
						break
					}
				}
			}
		}
	}
	var lastErrReturned error
	judge := func(where string, tippingErr error) {
		if cancelled {
			if returned == nil {
				viol("blocked-after-context-end", "not returned after the caller's context ended", map[string]any{"trace": trace})
			}
			return
		}
		v, ids := decideRead(q, answered)
		// terminal error decides immediately
		terminal := false
		if q.TerminalPred {
			for _, o := range answered {
				if o == oTerminal {
					terminal = true
				}
			}
		}
		if terminal {
			v = failure
		}
		switch v {
		case undecided:
			if returned != nil {
				sig := "returned-before-criterion"
				if returned.err == nil {
					sig = "results-without-quorum"
				}
				viol(sig, fmt.Sprintf("returned (%v, %v) before the success criterion holds or the tolerance is exceeded (%s)", returned.res, returned.err, where), map[string]any{"answered": answered, "trace": trace})
			}
		case success:
			if returned == nil {
				viol("blocked-after-quorum", "not returned although the success criterion holds ("+where+")", map[string]any{"answered": answered, "trace": trace})
			} else if returned.err != nil {
				viol("error-despite-quorum", fmt.Sprintf("returned error %v although the success criterion holds", returned.err), map[string]any{"answered": answered, "trace": trace})
			} else {
				want := make([]string, 0, len(ids))
				for _, id := range ids {
					want = append(want, "res-"+id)
				}
				sort.Strings(want)
				got := append([]string(nil), returned.res...)
				sort.Strings(got)
				if fmt.Sprint(got) != fmt.Sprint(want) {
					sig := "wrong-result-set"
					for _, g := range got {
						id := strings.TrimPrefix(g, "res-")
						if o, ok := answered[id]; !ok || o != oOK {
							sig = "result-from-failed-or-unfinished-call"
						}
					}
					viol(sig, fmt.Sprintf("returned results %v, criterion gives %v", got, want), map[string]any{"answered": answered, "trace": trace})
				}
			}
		case failure:
			if returned == nil {
				viol("blocked-after-tolerance-exceeded", "not returned although failures exceed the tolerance / a terminal error occurred ("+where+")", map[string]any{"answered": answered, "trace": trace})
			} else if returned.err == nil {
				viol("results-without-quorum", "returned results although failures exceed the tolerance", map[string]any{"answered": answered, "results": returned.res, "trace": trace})
			} else if tippingErr != nil && lastErrReturned == nil && returned.err != tippingErr {
				viol("error-not-the-deciding-one", fmt.Sprintf("returned error %v, the deciding call returned %v", returned.err, tippingErr), map[string]any{"trace": trace})
			}
			if returned != nil {
				lastErrReturned = returned.err
			}
		}
	}
	checkStartBound("initially")
	// not minimised: every instance is called unless the call is already decided
	if !q.Minimize && returned == nil {
		if st := startedIDs(); len(st) != len(q.Instances) {
			viol("not-all-instances-called", "request minimisation is off but not every instance was called", map[string]any{"started": st})
		}
	}
	judge("before any answer", nil)

	nextToRelease := func() *callState {
		mu.Lock()
		defer mu.Unlock()
		for _, id := range q.Order {
			if cs, ok := calls[id]; ok && !cs.released {
				return cs
			}
		}
		return nil
	}
	for ai := 0; ai < len(q.Actions)+4*len(q.Instances)+8; ai++ {
		act := "rel"
		if ai < len(q.Actions) {
			act = q.Actions[ai]
		}
		if returned != nil && nextToRelease() == nil {
			break
		}
		switch act {
		case "cancel":
			if cancelled || returned != nil {
				continue
			}
			cancel(errCallerGaveUp)
			synctest.Wait()
			poll()
			trace = append(trace, "cancel")
			cancelled = true
			if returned == nil {
				viol("blocked-after-context-end", "not returned after the caller's context ended", map[string]any{"trace": trace})
			} else if returned.err != errCallerGaveUp {
				viol("context-cause-not-returned", fmt.Sprintf("after cancellation returned (%v, %v) instead of the context's cause", returned.res, returned.err), map[string]any{"trace": trace})
			}
		case "tick":
			if q.HedgeSeconds == 0 || returned != nil {
				continue
			}
			time.Sleep(time.Duration(q.HedgeSeconds) * time.Second)
			synctest.Wait()
			ticks++
			trace = append(trace, "tick")
			poll()
			checkStartBound("after hedging tick")
			judge("after hedging tick", nil)
		default:
			cs := nextToRelease()
			if cs == nil {
				if returned != nil {
					continue
				}
				// nothing outstanding and not returned: only hedging can make progress
				if q.HedgeSeconds > 0 && q.Minimize && len(startedIDs()) < len(q.Instances) {
					time.Sleep(time.Duration(q.HedgeSeconds) * time.Second)
					synctest.Wait()
					ticks++
					trace = append(trace, "tick(forced)")
					poll()
					continue
				}
				viol("stuck", "no call is outstanding, the criterion is undecided and the function has not returned", map[string]any{"answered": answered, "started": startedIDs(), "trace": trace})
				cancel(errCallerGaveUp)
				synctest.Wait()
				poll()
				cancelled = true
				continue
			}
			wasReturned := returned != nil
			mu.Lock()
			cs.released = true
			mu.Unlock()
			close(cs.gate)
			synctest.Wait()
			trace = append(trace, fmt.Sprintf("%s=%d", cs.id, q.Outcomes[cs.id]))
			if wasReturned {
				continue // late completion after return: only the ledgers below care
			}
			answered[cs.id] = q.Outcomes[cs.id]
			var tip error
			switch q.Outcomes[cs.id] {
			case oFail:
				tip = q.fail(cs.id)
			case oTerminal:
				tip = termErr{cs.id}
			}
			poll()
			checkStartBound("after " + cs.id)
			judge("after answer of "+cs.id, tip)
		}
	}
	// drain: release everything still parked, then check the ledgers
	for {
		cs := nextToRelease()
		if cs == nil {
			break
		}
		mu.Lock()
		cs.released = true
		mu.Unlock()
		close(cs.gate)
		synctest.Wait()
	}
	poll()
	if returned == nil {
		viol("never-returned", "the function has not returned after every started call completed", map[string]any{"answered": answered, "trace": trace})
		cancel(errCallerGaveUp)
		synctest.Wait()
		poll()
	}
	synctest.Wait()
	mu.Lock()
	defer mu.Unlock()
	used := map[string]bool{}
	if returned != nil {
		for _, r := range returned.res {
			if used[r] {
				viol("result-returned-twice", "a result appears twice in the returned slice", map[string]any{"results": returned.res})
			}
			used[r] = true
		}
	}
	for id, cs := range calls {
		val := "res-" + id
		produced := q.Outcomes[id] == oOK
		if produced {
			n := cleaned[val]
			switch {
			case used[val] && n > 0:
				viol("ledger/returned-and-cleaned", "a result was both returned and passed to cleanup: "+val, map[string]any{"trace": trace})
			case !used[val] && n == 0:
				viol("ledger/result-leaked", "a successful result was neither returned nor cleaned up: "+val, map[string]any{"trace": trace, "returned": returned})
			case n > 1:
				viol("ledger/cleaned-twice", "a result was cleaned up twice: "+val, map[string]any{"trace": trace})
			}
		} else if cleaned[val] > 0 || used[val] {
			viol("ledger/result-from-failed-call", "a failed call's result was returned or cleaned: "+val, nil)
		}
		if !used[val] && cs.ctx.Err() == nil {
			viol("context/unused-call-not-cancelled", "the context of a call whose result is not used is still live after return: "+id, map[string]any{"trace": trace})
		}
		if used[val] && !cancelled {
			if q.Variant == "quorum" && cs.ctx.Err() == nil {
				viol("context/not-cancelled-on-return", "DoUntilQuorum returned but a call's context is still live: "+id, nil)
			}
			if q.Variant == "nocancel" && cs.ctx.Err() != nil {
				viol("context/used-call-cancelled", "the context of a call whose result was returned has been cancelled: "+id, map[string]any{"cause": fmt.Sprint(context.Cause(cs.ctx))})
			}
		}
		if q.ReplicaCount && (!cs.hasCount || cs.replicas != len(q.Instances)) {
			viol("replica-count-missing", "IncludeReplicaCount set but the call's context does not carry the replica count", nil)
		}
	}
	for val := range cleaned {
		id := strings.TrimPrefix(val, "res-")
		if _, ok := calls[id]; !ok {
			viol("ledger/cleanup-of-unknown-result", "cleanup called with a value no call produced: "+val, nil)
		}
	}
	h := vt.Hash64(fmt.Sprintf("%+v", q))
	run.EvalH(h, len(q.Instances) > 1)
	run.Distinct("trace|" + strings.Join(trace, ","))
	if len(q.Instances) > 2 && run.WantSample() {
		run.Sample(map[string]any{"case": q, "trace": trace, "returned": fmt.Sprint(returned)})
	}
}

func randomConfig(rng *rand.Rand) qcase {
	n := 1 + rng.IntN(6)
	nz := 1 + rng.IntN(4)
	q := qcase{Variant: []string{"quorum", "nocancel"}[rng.IntN(2)]}
	for i := 0; i < n; i++ {
		q.Instances = append(q.Instances, inst{fmt.Sprintf("i%d", i), fmt.Sprintf("z%d", rng.IntN(nz))})
	}
	zones := map[string]bool{}
	for _, in := range q.Instances {
		zones[in.Zone] = true
	}
	switch rng.IntN(3) {
	case 0: // zone-aware by tolerance
		q.MaxUnavailableZones = 1 + rng.IntN(len(zones)+1)
	case 1: // zone-aware by flag
		q.ZoneAware = true
		q.MaxUnavailableZones = rng.IntN(len(zones) + 1)
	default:
		q.MaxErrors = rng.IntN(n + 1)
	}
	q.Minimize = rng.IntN(2) == 0
	if rng.IntN(3) == 0 {
		q.HedgeSeconds = 1 + rng.IntN(5)
	}
	if q.zoneMode() && rng.IntN(2) == 0 {
		q.Sorter = []string{"asc", "desc"}[rng.IntN(2)]
	}
	q.TerminalPred = rng.IntN(4) == 0
	q.ReplicaCount = rng.IntN(4) == 0
	q.CanceledErrs = rng.IntN(3) == 0
	return q
}

func ids(q qcase) []string {
	var s []string
	for _, in := range q.Instances {
		s = append(s, in.ID)
	}
	return s
}

func permutations(ids []string, f func([]string)) {
	p := append([]string(nil), ids...)
	var rec func(k int)
	rec = func(k int) {
		if k == len(p) {
			f(append([]string(nil), p...))
			return
		}
		for i := k; i < len(p); i++ {
			p[k], p[i] = p[i], p[k]
			rec(k + 1)
			p[k], p[i] = p[i], p[k]
		}
	}
	rec(0)
}

func TestC11(t *testing.T) {
	run := vt.NewRun("C11", "exploration")
	run.SetRule("case = (replication set: 1-6 instances in 1-4 zones, tolerance by MaxErrors / MaxUnavailableZones / ZoneAwarenessEnabled, minimisation on/off, hedging delay, zone sorter, terminal-error predicate; success/failure/terminal outcome per call; release priority; action script of releases, hedging ticks and caller cancellation) executed by the real DoUntilQuorum / DoUntilQuorumWithoutSuccessfulContextCancellation in a synctest bubble with calls parked on gates, one action at a time with synctest.Wait(); after each action: returned iff the criterion decided, exact result set, bound on started calls; at the end: result conservation ledger (returned xor cleaned, exactly once), context ledger, at-most-once calls. <= 4 instances: all 2^n outcome assignments x n! priorities; more: sampled. Multi-set and legacy Do variants have their own generators. non-trivial = more than one instance; distinct by full case; distinct traces counted too.")

	run.ForEachT(t, "single", vt.N(250, 6000), func(t *testing.T, c vt.CaseID, rng *rand.Rand, s *vt.Slot) {
		s.Enter(c, "crash/single")
		defer s.Leave()
		base := randomConfig(rng)
		all := ids(base)
		n := len(all)
		type oo struct {
			out   map[string]int
			order []string
		}
		var list []oo
		if n <= 4 {
			for a := 0; a < 1<<n; a++ {
				out := map[string]int{}
				for i, id := range all {
					if a>>i&1 == 1 {
						out[id] = oFail
						if base.TerminalPred && rng.IntN(3) == 0 {
							out[id] = oTerminal
						}
					}
				}
				permutations(all, func(p []string) { list = append(list, oo{out, p}) })
			}
		} else {
			for k := 0; k < 120; k++ {
				out := map[string]int{}
				for _, id := range all {
					if rng.IntN(3) == 0 {
						out[id] = oFail
						if base.TerminalPred && rng.IntN(3) == 0 {
							out[id] = oTerminal
						}
					}
				}
				p := append([]string(nil), all...)
				rng.Shuffle(len(p), func(i, j int) { p[i], p[j] = p[j], p[i] })
				list = append(list, oo{out, p})
			}
		}
		for _, e := range list {
			q := base
			q.Outcomes, q.Order = e.out, e.order
			// action script
			var acts []string
			for i := 0; i < n+2; i++ {
				r := rng.IntN(12)
				switch {
				case r == 0:
					acts = append(acts, "cancel")
				case r <= 2 && q.HedgeSeconds > 0:
					acts = append(acts, "tick")
				default:
					acts = append(acts, "rel")
				}
			}
			q.Actions = acts
			synctest.Test(t, func(t *testing.T) { runQuorum(t, run, c, q) })
		}
	})

	run.ForEachT(t, "multi", vt.N(8000, 150000), func(t *testing.T, c vt.CaseID, rng *rand.Rand, s *vt.Slot) {
		s.Enter(c, "crash/multi")
		defer s.Leave()
		synctest.Test(t, func(t *testing.T) { runMulti(t, run, c, rng) })
	})

	run.ForEachT(t, "legacy-do", vt.N(4000, 100000), func(t *testing.T, c vt.CaseID, rng *rand.Rand, s *vt.Slot) {
		s.Enter(c, "crash/legacy-do")
		defer s.Leave()
		synctest.Test(t, func(t *testing.T) { runLegacyDo(t, run, c, rng) })
	})
	run.Finish(t)
}

// ---- multi-set variant -----------------------------------------------------------

func runMulti(t *testing.T, run *vt.Run, c vt.CaseID, rng *rand.Rand) {
	nsets := 2 + rng.IntN(2)
	type setSpec struct {
		Q qcase `json:"set"`
	}
	var qs []qcase
	var sets []ring.ReplicationSet
	minimize := rng.IntN(3) == 0
	for si := 0; si < nsets; si++ {
		q := randomConfig(rng)
		q.Variant = "multi"
		q.Minimize = minimize
		q.HedgeSeconds = 0
		q.TerminalPred = false
		q.Sorter = ""
		n := 1 + rng.IntN(3)
		if rng.IntN(2) == 0 {
			n = 1 + rng.IntN(6) // larger sets: zones with several instances, results from zones that end up unused
		}
		q.Instances = q.Instances[:min(n, len(q.Instances))]
		if !q.zoneMode() && q.MaxErrors > len(q.Instances) {
			q.MaxErrors = len(q.Instances)
		}
		for i := range q.Instances {
			q.Instances[i].ID = fmt.Sprintf("s%d-%s", si, q.Instances[i].ID)
		}
		q.Outcomes = map[string]int{}
		for _, in := range q.Instances {
			if rng.IntN(4) == 0 {
				q.Outcomes[in.ID] = oFail
			}
		}
		rs := ring.ReplicationSet{MaxErrors: q.MaxErrors, MaxUnavailableZones: q.MaxUnavailableZones, ZoneAwarenessEnabled: q.ZoneAware}
		for _, in := range q.Instances {
			rs.Instances = append(rs.Instances, ring.InstanceDesc{Id: in.ID, Addr: in.ID, Zone: in.Zone})
		}
		qs = append(qs, q)
		sets = append(sets, rs)
	}
	outcome := map[string]int{}
	for _, q := range qs {
		for k, v := range q.Outcomes {
			outcome[k] = v
		}
	}
	viol := func(sig, what string, extra map[string]any) {
		d := map[string]any{"sets": qs}
		for k, v := range extra {
			d[k] = v
		}
		run.Violation(c, "multi/"+sig, what, d)
	}
	var mu sync.Mutex
	type mcall struct {
		id     string
		gate   chan struct{}
		ctx    context.Context
		cancel context.CancelCauseFunc
		rel    bool
	}
	calls := map[string]*mcall{}
	count := map[string]int{}
	cleaned := map[string]int{}
	f := func(ctx context.Context, d *ring.InstanceDesc, cancel context.CancelCauseFunc) (string, error) {
		mc := &mcall{id: d.Id, gate: make(chan struct{}), ctx: ctx, cancel: cancel}
		mu.Lock()
		count[d.Id]++
		calls[d.Id] = mc
		mu.Unlock()
		<-mc.gate
		if outcome[d.Id] != oOK {
			cancel(errors.New("done with error")) // the API requires f to call cancel once done
			return "", failErr{id: d.Id}
		}
		return "res-" + d.Id, nil
	}
	cleanupLatency := map[string]time.Duration{}
	allSlow := rng.IntN(2) == 0
	// how long the releases of every result can take when they happen one after the other (the error path of the
	// multi-set call releases the results of the sets that had succeeded sequentially)
	drain := 500 * time.Millisecond
	if rng.IntN(2) == 0 {
		for id := range outcome {
			_ = id
		}
		for _, q := range qs {
			for _, in := range q.Instances {
				if allSlow || rng.IntN(3) == 0 {
					cleanupLatency["res-"+in.ID] = time.Duration(1+rng.IntN(100)) * time.Millisecond
					drain += cleanupLatency["res-"+in.ID]
				}
			}
		}
	}
	ctx, cancelAll := context.WithCancelCause(context.Background())
	defer cancelAll(nil)
	type ret struct {
		res []string
		err error
	}
	retCh := make(chan ret, 1)
	go func() {
		res, err := ring.DoMultiUntilQuorumWithoutSuccessfulContextCancellation(ctx, sets, ring.DoUntilQuorumConfig{MinimizeRequests: minimize}, f, func(s string) {
			// releasing a result may take time (closing a stream): other events happen meanwhile
			if d := cleanupLatency[s]; d > 0 {
				time.Sleep(d)
			}
			mu.Lock()
			cleaned[s]++
			mu.Unlock()
		})
		retCh <- ret{res, err}
	}()
	synctest.Wait()
	var returned *ret
	poll := func() {
		select {
		case r := <-retCh:
			returned = &r
		default:
		}
	}
	answered := map[string]int{}
	var trace []string
	cancelAt := -1
	if rng.IntN(5) == 0 {
		cancelAt = rng.IntN(6)
	}
	cancelled := false
	specVerdict := func() verdict {
		all := success
		for _, q := range qs {
			v, _ := decideRead(q, answered)
			if v == failure {
				return failure
			}
			if v == undecided {
				all = undecided
			}
		}
		return all
	}
	for step := 0; step < 40; step++ {
		poll()
		if step == cancelAt && returned == nil && !cancelled {
			cancelAll(errCallerGaveUp)
			cancelled = true
			synctest.Wait()
			poll()
			if returned == nil && len(cleanupLatency) > 0 {
				time.Sleep(drain) // a slow cleanup in progress delays the return legitimately
				synctest.Wait()
				poll()
			}
			trace = append(trace, "cancel")
			if returned == nil {
				viol("blocked-after-context-end", "not returned after the caller's context ended", map[string]any{"trace": trace})
			}
		}
		mu.Lock()
		var parked []*mcall
		for _, mc := range calls {
			if !mc.rel {
				parked = append(parked, mc)
			}
		}
		mu.Unlock()
		if len(parked) == 0 {
			break
		}
		sort.Slice(parked, func(i, j int) bool { return parked[i].id < parked[j].id })
		mc := parked[rng.IntN(len(parked))]
		mc.rel = true
		wasReturned := returned != nil
		close(mc.gate)
		synctest.Wait()
		trace = append(trace, fmt.Sprintf("%s=%d", mc.id, outcome[mc.id]))
		if !wasReturned {
			answered[mc.id] = outcome[mc.id]
		}
		poll()
		if !wasReturned && !cancelled {
			v := specVerdict()
			if v != undecided && returned == nil && len(cleanupLatency) > 0 {
				// a set may still be busy releasing results it does not need: let slow cleanups finish
				time.Sleep(drain)
				synctest.Wait()
				poll()
			}
			switch {
			case v == undecided && returned != nil:
				viol("returned-before-every-set-decided", fmt.Sprintf("returned (%v,%v) while some set is undecided and none has failed", returned.res, returned.err), map[string]any{"trace": trace})
			case v == success && (returned == nil || returned.err != nil):
				viol("no-success-after-all-quorums", "every set reached its quorum but the call did not return results", map[string]any{"trace": trace, "returned": fmt.Sprint(returned)})
			case v == failure && (returned == nil || returned.err == nil):
				viol("no-error-after-set-failed", "a set exceeded its tolerance but the call did not return an error", map[string]any{"trace": trace, "returned": fmt.Sprint(returned)})
			}
		}
	}
	// slow cleanups finish
	time.Sleep(2 * time.Second)
	synctest.Wait()
	poll()
	if returned == nil {
		viol("never-returned", "not returned after all started calls completed", map[string]any{"trace": trace})
		cancelAll(errCallerGaveUp)
		synctest.Wait()
		poll()
	}
	time.Sleep(2 * time.Second)
	synctest.Wait()
	mu.Lock()
	used := map[string]bool{}
	if returned != nil {
		for _, r := range returned.res {
			used[r] = true
		}
	}
	for id, mc := range calls {
		val := "res-" + id
		if count[id] > 1 {
			viol("instance-called-twice", "instance called twice: "+id, nil)
		}
		if outcome[id] == oOK {
			switch n := cleaned[val]; {
			case used[val] && n > 0:
				viol("ledger/returned-and-cleaned", "result returned and cleaned: "+val, map[string]any{"trace": trace})
			case !used[val] && n == 0:
				viol("ledger/result-leaked", "a successful result was neither returned nor cleaned up: "+val, map[string]any{"trace": trace, "returned_err": fmt.Sprint(returned != nil && returned.err != nil)})
			case n > 1:
				viol("ledger/cleaned-twice", "result cleaned twice: "+val, map[string]any{"trace": trace})
			}
			if !used[val] && mc.ctx.Err() == nil {
				viol("context/unused-call-not-cancelled", "context of an unused call still live: "+id, map[string]any{"trace": trace})
			}
			if used[val] && !cancelled && mc.ctx.Err() != nil {
				viol("context/used-call-cancelled", "context of a returned result cancelled: "+id, map[string]any{"trace": trace, "cause": fmt.Sprint(context.Cause(mc.ctx))})
			}
		}
	}
	mu.Unlock()
	// the callback contract: cancel every returned stream's context so that workers can finish
	for _, mc := range calls {
		mc.cancel(errors.New("done"))
	}
	synctest.Wait()
	run.EvalH(vt.Hash64(fmt.Sprintf("%+v|%v", qs, trace)), true)
	if c.Idx < 3 {
		run.Sample(map[string]any{"kind": "multi", "sets": qs, "trace": trace, "returned": fmt.Sprint(returned)})
	}
}

// ---- legacy ReplicationSet.Do -------------------------------------------------------

func runLegacyDo(t *testing.T, run *vt.Run, c vt.CaseID, rng *rand.Rand) {
	q := randomConfig(rng)
	q.Variant = "legacy-do"
	q.ZoneAware = false
	q.Minimize, q.Sorter, q.TerminalPred, q.HedgeSeconds = false, "", false, 0
	if q.MaxUnavailableZones > 0 {
		q.MaxErrors = 0
	} else if q.MaxErrors >= len(q.Instances) {
		q.MaxErrors = len(q.Instances) - 1
	}
	delay := time.Duration(0)
	if rng.IntN(2) == 0 {
		delay = time.Duration(1+rng.IntN(3)) * time.Second
	}
	q.Outcomes = map[string]int{}
	for _, in := range q.Instances {
		if rng.IntN(3) == 0 {
			q.Outcomes[in.ID] = oFail
		}
	}
	rs := ring.ReplicationSet{MaxErrors: q.MaxErrors, MaxUnavailableZones: q.MaxUnavailableZones}
	for _, in := range q.Instances {
		rs.Instances = append(rs.Instances, ring.InstanceDesc{Id: in.ID, Addr: in.ID, Zone: in.Zone})
	}
	viol := func(sig, what string, extra map[string]any) {
		d := map[string]any{"case": q, "delay": delay.String()}
		for k, v := range extra {
			d[k] = v
		}
		run.Violation(c, "legacy-do/"+sig, what, d)
	}
	var mu sync.Mutex
	type lc struct {
		id   string
		gate chan struct{}
		rel  bool
	}
	calls := map[string]*lc{}
	count := map[string]int{}
	type ret struct {
		res []interface{}
		err error
	}
	retCh := make(chan ret, 1)
	ctx, cancel := context.WithCancel(context.Background())
	defer cancel()
	go func() {
		res, err := rs.Do(ctx, delay, func(ctx context.Context, d *ring.InstanceDesc) (interface{}, error) {
			l := &lc{id: d.Id, gate: make(chan struct{})}
			mu.Lock()
			calls[d.Id] = l
			count[d.Id]++
			mu.Unlock()
			<-l.gate
			if q.Outcomes[d.Id] != oOK {
				return nil, failErr{id: d.Id}
			}
			return "res-" + d.Id, nil
		})
		retCh <- ret{res, err}
	}()
	synctest.Wait()
	var returned *ret
	poll := func() {
		select {
		case r := <-retCh:
			returned = &r
		default:
		}
	}
	answered := map[string]int{}
	var trace []string
	// how many calls may have been started: without a delay (or with the zone-aware tracker) all of them at once; with a
	// delay the last MaxErrors instances are held back, one more is released per failed call, all once the delay has passed
	releasedAll := delay == 0 || q.MaxUnavailableZones > 0
	startedBound := func() int {
		if releasedAll {
			return len(q.Instances)
		}
		fails := 0
		for _, o := range answered {
			if o != oOK {
				fails++
			}
		}
		return min(len(q.Instances), len(q.Instances)-q.MaxErrors+fails)
	}
	checkStarted := func(when string) {
		mu.Lock()
		n := len(count)
		mu.Unlock()
		if b := startedBound(); n > b {
			viol("more-calls-than-released", fmt.Sprintf("%d instances have been called %s, but only %d may have been released (held back: the last MaxErrors; one more per failure; all after the delay)", n, when, b), map[string]any{"trace": trace, "answered": answered})
		}
		run.Count("legacy_started_bound_checks", 1)
	}
	checkStarted("at the start")
	for step := 0; step < 30; step++ {
		poll()
		mu.Lock()
		var parked []*lc
		for _, l := range calls {
			if !l.rel {
				parked = append(parked, l)
			}
		}
		mu.Unlock()
		if len(parked) == 0 {
			if returned != nil {
				break
			}
			if delay > 0 {
				time.Sleep(delay)
				releasedAll = true
				synctest.Wait()
				trace = append(trace, "delay")
				mu.Lock()
				np := 0
				for _, l := range calls {
					if !l.rel {
						np++
					}
				}
				mu.Unlock()
				if np > 0 {
					continue
				}
			}
			viol("stuck", "no call outstanding, criterion undecided, not returned", map[string]any{"trace": trace, "answered": answered})
			break
		}
		sort.Slice(parked, func(i, j int) bool { return parked[i].id < parked[j].id })
		l := parked[rng.IntN(len(parked))]
		l.rel = true
		was := returned != nil
		close(l.gate)
		synctest.Wait()
		trace = append(trace, fmt.Sprintf("%s=%d", l.id, q.Outcomes[l.id]))
		poll()
		if was {
			checkStarted("after Do had returned")
			continue
		}
		answered[l.id] = q.Outcomes[l.id]
		checkStarted(fmt.Sprintf("after %d answers", len(answered)))
		v, _ := decideRead(q, answered)
		switch {
		case v == undecided && returned != nil:
			viol("returned-before-criterion", fmt.Sprintf("Do returned (%v,%v) before the criterion is decided", returned.res, returned.err), map[string]any{"trace": trace})
		case v == success && (returned == nil || returned.err != nil):
			viol("no-success-after-quorum", "criterion holds but Do did not return results", map[string]any{"trace": trace, "returned": fmt.Sprint(returned)})
		case v == failure && (returned == nil || returned.err == nil):
			viol("no-error-after-tolerance-exceeded", "tolerance exceeded but Do did not return an error", map[string]any{"trace": trace, "returned": fmt.Sprint(returned)})
		}
		if returned != nil && returned.err == nil {
			for _, r := range returned.res {
				id := strings.TrimPrefix(r.(string), "res-")
				if o, ok := answered[id]; !ok || o != oOK {
					viol("result-from-failed-or-unfinished-call", "Do returned a result no successful call produced: "+r.(string), nil)
				}
			}
		}
	}
	cancel()
	mu.Lock()
	for _, l := range calls {
		if !l.rel {
			l.rel = true
			close(l.gate)
		}
	}
	for id, n := range count {
		if n > 1 {
			viol("instance-called-twice", "instance called twice: "+id, nil)
		}
	}
	mu.Unlock()
	synctest.Wait()
	poll()
	if returned == nil {
		viol("never-returned", "Do did not return", map[string]any{"trace": trace})
	}
	// calls that only start once Do has ended (released by nothing): let them finish, then count
	mu.Lock()
	for _, l := range calls {
		if !l.rel {
			l.rel = true
			close(l.gate)
		}
	}
	mu.Unlock()
	synctest.Wait()
	checkStarted("by the time Do had ended and everything was quiet")
	run.EvalH(vt.Hash64(fmt.Sprintf("%+v|%v|%v", q, delay, trace)), len(q.Instances) > 1)
}

// TestC11Race: nothing is gated; every call returns after a small random virtual
// delay from its own goroutine, under the race detector. Order-independent checks only.
func TestC11Race(t *testing.T) {
	run := vt.NewRun("C11", "exploration")
	run.SetRule("concurrent mode under the race detector: calls complete on their own after random virtual delays (some simultaneously); checked: at-most-once calls, result conservation ledger, contexts of unused calls cancelled, results only from successful calls, success only if the criterion holds on the full outcome assignment, error only if the assignment can exceed the tolerance. Generator release: zone-aware sets with request minimisation where exactly one zone fails at once, so a held-back zone is released while its calls are parked and wake up in parallel.")
	run.ForEachT(t, "concurrent", vt.N(4000, 80000), func(t *testing.T, c vt.CaseID, rng *rand.Rand, s *vt.Slot) {
		s.Enter(c, "crash/concurrent")
		defer s.Leave()
		q := randomConfig(rng)
		q.TerminalPred = false
		q.Outcomes = map[string]int{}
		delays := map[string]time.Duration{}
		for _, in := range q.Instances {
			if rng.IntN(3) == 0 {
				q.Outcomes[in.ID] = oFail
			}
			delays[in.ID] = time.Duration(rng.IntN(3)) * time.Millisecond
		}
		concurrentCase(t, run, c, q, delays)
	})
	// zones held back by request minimisation and released while their calls are parked: 3-4 zones, exactly one
	// zone fails at once (within the tolerance of one zone), the other calls answer at the same virtual instant,
	// so the waiters of the released zone wake up in parallel with the release itself
	run.ForEachT(t, "release", vt.N(12000, 200000), func(t *testing.T, c vt.CaseID, rng *rand.Rand, s *vt.Slot) {
		s.Enter(c, "crash/release")
		defer s.Leave()
		q := qcase{Variant: []string{"quorum", "nocancel"}[rng.IntN(2)], ZoneAware: true, MaxUnavailableZones: 1, Minimize: true}
		nz := 3 + rng.IntN(2)
		failZone := rng.IntN(nz)
		q.Outcomes = map[string]int{}
		delays := map[string]time.Duration{}
		k := 0
		for z := 0; z < nz; z++ {
			for n := 1 + rng.IntN(5); n > 0; n-- {
				id := fmt.Sprintf("i%d", k)
				k++
				q.Instances = append(q.Instances, inst{id, fmt.Sprintf("z%d", z)})
				if z == failZone {
					q.Outcomes[id] = oFail
				}
				delays[id] = 0
			}
		}
		if rng.IntN(4) == 0 {
			q.HedgeSeconds = 1
			for id := range delays {
				delays[id] = time.Duration(rng.IntN(3)) * time.Millisecond
			}
		}
		concurrentCase(t, run, c, q, delays)
	})
	run.Finish(t)
}

func concurrentCase(t *testing.T, run *vt.Run, c vt.CaseID, q qcase, delays map[string]time.Duration) {
	{
		synctest.Test(t, func(t *testing.T) {
			rs := ring.ReplicationSet{MaxErrors: q.MaxErrors, MaxUnavailableZones: q.MaxUnavailableZones, ZoneAwarenessEnabled: q.ZoneAware}
			for _, in := range q.Instances {
				rs.Instances = append(rs.Instances, ring.InstanceDesc{Id: in.ID, Addr: in.ID, Zone: in.Zone})
			}
			cfg := ring.DoUntilQuorumConfig{MinimizeRequests: q.Minimize, HedgingDelay: time.Duration(q.HedgeSeconds) * time.Millisecond}
			var mu sync.Mutex
			count := map[string]int{}
			ctxs := map[string]context.Context{}
			finished := map[string]bool{}
			cleaned := map[string]int{}
			f := func(ctx context.Context, d *ring.InstanceDesc) (string, error) {
				mu.Lock()
				count[d.Id]++
				ctxs[d.Id] = ctx
				mu.Unlock()
				time.Sleep(delays[d.Id])
				mu.Lock()
				finished[d.Id] = true
				mu.Unlock()
				if q.Outcomes[d.Id] != oOK {
					return "", q.fail(d.Id)
				}
				return "res-" + d.Id, nil
			}
			var res []string
			var err error
			if q.Variant == "quorum" {
				res, err = ring.DoUntilQuorum(context.Background(), rs, cfg, f, func(s string) { mu.Lock(); cleaned[s]++; mu.Unlock() })
			} else {
				ctx, cancel := context.WithCancel(context.Background())
				defer cancel()
				res, err = ring.DoUntilQuorumWithoutSuccessfulContextCancellation(ctx, rs, cfg, func(ctx context.Context, d *ring.InstanceDesc, _ context.CancelCauseFunc) (string, error) {
					return f(ctx, d)
				}, func(s string) { mu.Lock(); cleaned[s]++; mu.Unlock() })
			}
			time.Sleep(time.Second)
			synctest.Wait()
			mu.Lock()
			defer mu.Unlock()
			viol := func(sig, what string) {
				run.Violation(c, "concurrent/"+sig, what, map[string]any{"case": q, "results": res, "err": fmt.Sprint(err), "cleaned": cleaned})
			}
			used := map[string]bool{}
			for _, r := range res {
				used[r] = true
				if q.Outcomes[strings.TrimPrefix(r, "res-")] != oOK {
					viol("result-from-failed-call", "returned a result of a failed call")
				}
			}
			full := map[string]int{}
			for _, in := range q.Instances {
				full[in.ID] = q.Outcomes[in.ID]
			}
			v, _ := decideRead(q, full)
			if err == nil && v != success {
				viol("results-without-quorum", "returned results although the full outcome assignment does not satisfy the criterion")
			}
			if err != nil {
				// an error needs failures beyond the tolerance somewhere in the assignment
				fails := 0
				fz := map[string]bool{}
				zo := map[string]string{}
				for _, in := range q.Instances {
					zo[in.ID] = in.Zone
				}
				for id, o := range full {
					if o != oOK {
						fails++
						fz[zo[id]] = true
					}
				}
				if (!q.zoneMode() && fails <= q.MaxErrors) || (q.zoneMode() && len(fz) <= q.MaxUnavailableZones) {
					viol("error-within-tolerance", "returned an error although failures do not exceed the tolerance")
				}
			}
			for id, n := range count {
				if n > 1 {
					viol("instance-called-twice", "instance called twice: "+id)
				}
				val := "res-" + id
				if q.Outcomes[id] == oOK && finished[id] {
					switch k := cleaned[val]; {
					case used[val] && k > 0:
						viol("ledger/returned-and-cleaned", "result returned and cleaned: "+val)
					case !used[val] && k == 0:
						viol("ledger/result-leaked", "successful result neither returned nor cleaned: "+val)
					case k > 1:
						viol("ledger/cleaned-twice", "result cleaned twice: "+val)
					}
				}
				if !used[val] && ctxs[id].Err() == nil {
					viol("context/unused-call-not-cancelled", "context of an unused call still live: "+id)
				}
			}
			run.EvalH(vt.Hash64(fmt.Sprintf("%+v|%v", q, delays)), len(q.Instances) > 1)
		})
	}
}
