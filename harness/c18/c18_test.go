package c18

import (
	"context"
	"errors"
	"fmt"
	"math/rand/v2"
	"sort"
	"strings"
	"sync"
	"testing"
	"testing/synctest"
	"time"

	"github.com/go-kit/log"

	"github.com/grafana/dskit/modules"
	"github.com/grafana/dskit/services"

	"verifharness/vt"
)

// graph: deps[i] = modules i depends on (indices). Names m0..m(n-1).
type graph struct {
	N    int     `json:"n"`
	Deps [][]int `json:"deps"`
}

func name(i int) string { return fmt.Sprintf("m%d", i) }

func (g graph) reach(from int) map[int]bool {
	seen := map[int]bool{}
	var dfs func(int)
	dfs = func(x int) {
		for _, d := range g.Deps[x] {
			if !seen[d] {
				seen[d] = true
				dfs(d)
			}
		}
	}
	dfs(from)
	return seen
}

// dagFromMask: module i may depend on j<perm-order only, so every mask is acyclic.
func dagFromMask(n int, mask uint64, order []int) graph {
	g := graph{N: n, Deps: make([][]int, n)}
	bit := 0
	for a := 0; a < n; a++ {
		for b := 0; b < a; b++ {
			if mask>>bit&1 == 1 {
				g.Deps[order[a]] = append(g.Deps[order[a]], order[b])
			}
			bit++
		}
	}
	return g
}

func buildManager(g graph, initFn func(i int) func() (services.Service, error), shuffle *rand.Rand) (*modules.Manager, error) {
	mm := modules.NewManager(log.NewNopLogger())
	for i := 0; i < g.N; i++ {
		mm.RegisterModule(name(i), initFn(i))
	}
	idx := make([]int, g.N)
	for i := range idx {
		idx[i] = i
	}
	if shuffle != nil {
		shuffle.Shuffle(len(idx), func(a, b int) { idx[a], idx[b] = idx[b], idx[a] })
	}
	for _, i := range idx {
		for _, d := range g.Deps[i] {
			if err := mm.AddDependency(name(i), name(d)); err != nil {
				return nil, fmt.Errorf("AddDependency(%s,%s): %w", name(i), name(d), err)
			}
		}
	}
	return mm, nil
}

// ---- initialisation order -----------------------------------------------------

func checkInit(run *vt.Run, c vt.CaseID, g graph, targets []int, withService uint64, rng *rand.Rand) {
	var order []int
	// about a quarter of the modules are registered without an init function (legal: pure grouping modules); they
	// are never "initialised" themselves but still order what is above and below them
	nilInit := func(i int) bool { return vt.Mix(uint64(c.Idx), uint64(i), uint64(len(targets)), 31)%4 == 0 }
	mm, err := buildManager(g, func(i int) func() (services.Service, error) {
		if nilInit(i) {
			return nil
		}
		return func() (services.Service, error) {
			order = append(order, i)
			if withService>>i&1 == 1 {
				return services.NewIdleService(nil, nil), nil
			}
			return nil, nil
		}
	}, rng)
	if err != nil {
		run.Violation(c, "init/legal-dependency-rejected", "a dependency of an acyclic graph was rejected: "+err.Error(), map[string]any{"graph": g})
		return
	}
	var tn []string
	for _, t := range targets {
		tn = append(tn, name(t))
	}
	svcs, err := mm.InitModuleServices(tn...)
	if err != nil {
		run.Violation(c, "init/failed", "InitModuleServices failed on an acyclic graph: "+err.Error(), map[string]any{"graph": g, "targets": tn})
		return
	}
	needed := map[int]bool{}
	for _, t := range targets {
		needed[t] = true
		for d := range g.reach(t) {
			needed[d] = true
		}
	}
	pos := map[int]int{}
	cnt := map[int]int{}
	for p, i := range order {
		cnt[i]++
		pos[i] = p
	}
	d := map[string]any{"graph": g, "targets": tn, "init_order": order}
	for i := 0; i < g.N; i++ {
		switch {
		case nilInit(i):
			// nothing to run
		case needed[i] && cnt[i] != 1:
			run.Violation(c, "init/not-exactly-once", fmt.Sprintf("needed module %s initialised %d times", name(i), cnt[i]), d)
		case !needed[i] && cnt[i] != 0:
			run.Violation(c, "init/unneeded-module-initialised", fmt.Sprintf("module %s is not needed but was initialised", name(i)), d)
		}
		if needed[i] && !nilInit(i) {
			for dep := range g.reach(i) {
				if cnt[dep] == 1 && pos[dep] > pos[i] {
					run.Violation(c, "init/before-dependency", fmt.Sprintf("module %s initialised before its dependency %s", name(i), name(dep)), d)
				}
			}
			if _, has := svcs[name(i)]; has != (withService>>i&1 == 1) {
				run.Violation(c, "init/service-map", fmt.Sprintf("service map entry of %s: present=%v", name(i), has), d)
			}
		}
	}
}

// ---- cycle rejection ----------------------------------------------------------------

func checkCycles(run *vt.Run, c vt.CaseID, g graph, s *vt.Slot) {
	for u := 0; u < g.N; u++ {
		for v := 0; v < g.N; v++ {
			has := false
			for _, d := range g.Deps[u] {
				if d == v {
					has = true
				}
			}
			if has {
				continue
			}
			closes := u == v || g.reach(v)[u]
			mm, err := buildManager(g, func(int) func() (services.Service, error) { return nil }, nil)
			if err != nil {
				run.Violation(c, "init/legal-dependency-rejected", err.Error(), map[string]any{"graph": g})
				return
			}
			sig := "cycle/accepted"
			if u == v {
				sig = "cycle/self-dependency-accepted"
			}
			// if a cycle-closing edge is accepted, nothing else may be called on that manager
			// (listing dependencies of a cyclic graph recurses without bound)
			s.Enter(c, sig)
			e := mm.AddDependency(name(u), name(v))
			s.Leave()
			run.EvalH(vt.Mix(vt.Hash64(fmt.Sprint(g.Deps)), uint64(u), uint64(v)), closes)
			if closes && e == nil {
				run.Violation(c, sig, fmt.Sprintf("AddDependency(%s, %s) closes a cycle but was accepted", name(u), name(v)), map[string]any{"graph": g, "edge": []string{name(u), name(v)}})
			}
			if !closes && e != nil {
				run.Count("legal_edges_rejected", 1)
			}
		}
	}
}

// ---- run time ------------------------------------------------------------------------------

type modPlan struct {
	HasService bool          `json:"has_service"`
	StartLat   time.Duration `json:"start_latency"`
	StopLat    time.Duration `json:"stop_latency"`
	FailStart  bool          `json:"fail_in_starting"`
	FailRunAt  time.Duration `json:"fail_in_running_after"` // 0 = never
	EndRunAt   time.Duration `json:"end_running_after"`     // 0 = never (ends by itself with nil)
	FailStop   bool          `json:"fail_in_stopping"`
}

type event struct {
	Seq  int
	At   time.Duration
	Mod  int
	What string // Starting Running Stopping Terminated Failed
}

type rtCase struct {
	Graph    graph         `json:"graph"`
	Targets  []int         `json:"targets"`
	Plans    []modPlan     `json:"plans"`
	StopAt   time.Duration `json:"stop_requested_at"` // <0: never (only on failure)
	StopOnFl bool          `json:"stop_all_on_failure"`
	// PreStop: the module service of this module is stopped before the manager starts anything (New -> Terminated:
	// it never runs); -1 = none. Its dependants must then not be started.
	PreStop int `json:"module_service_stopped_before_start"`
}

func runRuntime(t *testing.T, run *vt.Run, c vt.CaseID, rc rtCase) {
	synctest.Test(t, func(t *testing.T) {
		g := rc.Graph
		t0 := time.Now()
		var mu sync.Mutex
		var events []event
		state := map[int]string{}
		rec := func(m int, what string) {
			mu.Lock()
			events = append(events, event{len(events), time.Since(t0), m, what})
			state[m] = what
			mu.Unlock()
		}
		under := map[int]*services.BasicService{}
		underGet := func(m int) *services.BasicService {
			mu.Lock()
			defer mu.Unlock()
			return under[m]
		}
		selfEndedOf := map[int]bool{}
		type pendingViol struct{ sig, what string }
		var pend []pendingViol
		violNow := func(sig, what string) {
			mu.Lock()
			pend = append(pend, pendingViol{sig, what})
			mu.Unlock()
		}
		errOf := func(m int, where string) error { return fmt.Errorf("%s failed in %s", name(m), where) }
		mm, err := buildManager(g, func(i int) func() (services.Service, error) {
			return func() (services.Service, error) {
				p := rc.Plans[i]
				if !p.HasService {
					return nil, nil
				}
				var selfEnded bool
				s := services.NewBasicService(
					func(ctx context.Context) error {
						// synchronous observation point: this service is being started
						rec(i, "Starting")
						for dep := range g.reach(i) {
							if u := underGet(dep); u != nil {
								// the dependency must be running, unless its own running function has
								// already ended by itself (nothing could have waited for that)
								mu.Lock()
								ended := selfEndedOf[dep]
								mu.Unlock()
								if st := u.State(); st != services.Running && !ended {
									violNow("runtime/started-before-dependency-running", fmt.Sprintf("%s is being started at %v while its dependency %s is %v", name(i), time.Since(t0), name(dep), st))
								}
							}
						}
						time.Sleep(p.StartLat)
						if p.FailStart {
							rec(i, "StartFailed")
							return errOf(i, "starting")
						}
						rec(i, "Started")
						return nil
					},
					func(ctx context.Context) error {
						var failC, endC <-chan time.Time
						if p.FailRunAt > 0 {
							failC = time.After(p.FailRunAt)
						}
						if p.EndRunAt > 0 {
							endC = time.After(p.EndRunAt)
						}
						select {
						case <-ctx.Done():
							return nil
						case <-failC:
							selfEnded = true
							mu.Lock()
							selfEndedOf[i] = true
							mu.Unlock()
							rec(i, "RunFailed")
							return errOf(i, "running")
						case <-endC:
							selfEnded = true
							mu.Lock()
							selfEndedOf[i] = true
							mu.Unlock()
							rec(i, "RunEnded")
							return nil
						}
					},
					func(error) error {
						rec(i, "Stopping")
						if !selfEnded {
							// this service was asked to stop: every started dependant must be terminal
							for m := 0; m < g.N; m++ {
								if m == i || !g.reach(m)[i] {
									continue
								}
								if u := underGet(m); u != nil {
									if st := u.State(); st != services.New && st != services.Terminated && st != services.Failed {
										sig := "runtime/dependency-stopped-before-dependant"
										if st == services.Stopping {
											sig += "/dependant-still-stopping"
										}
										violNow(sig, fmt.Sprintf("%s is being stopped at %v while its dependant %s is %v", name(i), time.Since(t0), name(m), st))
									}
								}
							}
						}
						time.Sleep(p.StopLat)
						rec(i, "Stopped")
						if p.FailStop {
							return errOf(i, "stopping")
						}
						return nil
					})
				mu.Lock()
				under[i] = s
				mu.Unlock()
				return s, nil
			}
		}, nil)
		if err != nil {
			run.Violation(c, "init/legal-dependency-rejected", err.Error(), map[string]any{"case": rc})
			return
		}
		var tn []string
		for _, x := range rc.Targets {
			tn = append(tn, name(x))
		}
		svcMap, err := mm.InitModuleServices(tn...)
		if err != nil {
			run.Violation(c, "init/failed", err.Error(), map[string]any{"case": rc})
			return
		}
		if len(svcMap) == 0 {
			return
		}
		var all []services.Service
		wrapperOf := map[int]services.Service{}
		// leftNew: module services that were actually started. A module service that is stopped while still New
		// (a failure listener stopping the manager while it is still starting its services) ends Terminated
		// without ever running: it was "not started", it cannot "fail as well".
		var leftNewMu sync.Mutex
		leftNew := map[int]bool{}
		for i := 0; i < g.N; i++ {
			if s, ok := svcMap[name(i)]; ok {
				all = append(all, s)
				wrapperOf[i] = s
				i := i
				s.AddListener(services.NewListener(func() { leftNewMu.Lock(); leftNew[i] = true; leftNewMu.Unlock() }, nil, nil, nil, nil))
			}
		}
		mgr, err := services.NewManager(all...)
		if err != nil {
			run.Inconclusive("NewManager: " + err.Error())
			return
		}
		if rc.StopOnFl {
			mgr.AddListener(services.NewManagerListener(nil, nil, func(services.Service) { mgr.StopAsync() }))
		}
		if rc.PreStop >= 0 {
			if w := wrapperOf[rc.PreStop]; w != nil {
				w.StopAsync()
				run.Count("module_services_stopped_before_start", 1)
			}
		}
		_ = mgr.StartAsync(context.Background())
		var stoppedAt time.Duration = -1
		if rc.StopAt >= 0 {
			time.Sleep(rc.StopAt)
			mgr.StopAsync()
		}
		// bounded wait for "stopped" (virtual time); a manager that never stops on its own is stopped by the harness
		ctx, cancel := context.WithTimeout(context.Background(), 10*time.Minute)
		errStopped := mgr.AwaitStopped(ctx)
		cancel()
		forced := false
		if errStopped != nil {
			forced = true
			mgr.StopAsync()
			ctx2, cancel2 := context.WithTimeout(context.Background(), 10*time.Minute)
			errStopped = mgr.AwaitStopped(ctx2)
			cancel2()
		}
		stoppedAt = time.Since(t0)
		atStopped := map[int]services.State{}
		mu.Lock()
		for m, u := range under {
			atStopped[m] = u.State()
		}
		mu.Unlock()
		// let everything that is still running finish, so the bubble can end
		time.Sleep(30 * time.Minute)
		synctest.Wait()
		// underlying services that were never started still have our listener goroutine parked:
		// release them (New -> Terminated) once the analysis below is done.
		defer func() {
			for _, u := range under {
				if u.State() == services.New {
					u.StopAsync()
				}
			}
			synctest.Wait()
		}()
		mu.Lock()
		evCopy := append([]event(nil), events...)
		mu.Unlock()
		events = evCopy
		var evs []string
		for _, e := range events {
			evs = append(evs, fmt.Sprintf("%v %s %s", e.At, name(e.Mod), e.What))
		}
		d := func(extra map[string]any) map[string]any {
			m := map[string]any{"case": rc, "events": evs, "manager_stopped_at": stoppedAt.String(), "forced_stop": forced}
			for k, v := range extra {
				m[k] = v
			}
			return m
		}
		if errStopped != nil {
			run.Violation(c, "runtime/never-stopped", "the services manager did not reach stopped within 10 virtual minutes after a stop request", d(nil))
		}
		// transitive dependants (with services) of each module
		needed := map[int]bool{}
		for _, x := range rc.Targets {
			needed[x] = true
			for dep := range g.reach(x) {
				needed[dep] = true
			}
		}
		mu.Lock()
		pendCopy := append([]pendingViol(nil), pend...)
		mu.Unlock()
		for _, pv := range pendCopy {
			run.Violation(c, pv.sig, pv.what, d(nil))
		}
		started := map[int]bool{}
		startFailed := map[int]bool{}
		for _, e := range events {
			switch e.What {
			case "Starting":
				started[e.Mod] = true
			case "StartFailed":
				startFailed[e.Mod] = true
			}
		}
		if errStopped == nil {
			for m, st := range atStopped {
				if st == services.Starting || st == services.Running || st == services.Stopping {
					run.Violation(c, "runtime/manager-stopped-early", fmt.Sprintf("every module service is terminal at %v but the service of %s is still %v", stoppedAt, name(m), st), d(nil))
				}
			}
		}
		for m := range startFailed {
			for x := 0; x < g.N; x++ {
				if x != m && g.reach(x)[m] && needed[x] && rc.Plans[x].HasService {
					if started[x] {
						run.Violation(c, "runtime/dependant-started-after-dependency-failed", fmt.Sprintf("%s failed to start but its dependant %s was started", name(m), name(x)), d(nil))
					}
					leftNewMu.Lock()
					ran := leftNew[x]
					leftNewMu.Unlock()
					if w := wrapperOf[x]; w != nil && w.State() != services.Failed && (ran || w.State() != services.Terminated) {
						run.Violation(c, "runtime/dependant-not-failed", fmt.Sprintf("%s failed to start but the service of its dependant %s ended %v", name(m), name(x), w.State()), d(nil))
					}
				}
			}
		}
		// failures are not lost: a module whose service failed has a failed wrapper
		for m, u := range under {
			if u.State() == services.Failed {
				if w := wrapperOf[m]; w != nil && w.State() != services.Failed {
					run.Violation(c, "runtime/failure-lost", fmt.Sprintf("the service of %s failed (%v) but its module service ended %v", name(m), u.FailureCase(), w.State()), d(nil))
				}
			}
			if s := u.State(); s != services.Terminated && s != services.Failed && s != services.New {
				run.Violation(c, "runtime/service-left-running", fmt.Sprintf("service of %s is %v long after the manager stopped", name(m), s), d(nil))
			}
		}
		nsvc := 0
		for _, p := range rc.Plans {
			if p.HasService {
				nsvc++
			}
		}
		run.EvalH(vt.Hash64(fmt.Sprintf("%+v", rc)), nsvc > 1)
		run.Distinct("timeline|" + strings.Join(evs, ";"))
		if nsvc > 2 && run.WantSample() {
			run.Sample(map[string]any{"kind": "runtime", "case": rc, "events": evs})
		}
	})
}

func minPos(a, b time.Duration) time.Duration {
	switch {
	case a <= 0:
		return b
	case b <= 0:
		return a
	case a < b:
		return a
	}
	return b
}

func randomRuntime(rng *rand.Rand, g graph) rtCase {
	rc := rtCase{Graph: g, StopAt: -1, StopOnFl: true, PreStop: -1}
	for i := 0; i < g.N; i++ {
		p := modPlan{HasService: rng.IntN(5) != 0, StartLat: time.Duration(rng.IntN(5)) * time.Second, StopLat: time.Duration(rng.IntN(5)) * time.Second}
		rc.Plans = append(rc.Plans, p)
	}
	// one module may fail somewhere
	if rng.IntN(3) != 0 {
		m := rng.IntN(g.N)
		switch rng.IntN(4) {
		case 0:
			rc.Plans[m].FailStart = true
		case 1:
			rc.Plans[m].FailRunAt = time.Duration(1+rng.IntN(20)) * time.Second
		case 2:
			rc.Plans[m].FailStop = true
		default:
			rc.Plans[m].EndRunAt = time.Duration(1+rng.IntN(20)) * time.Second
		}
	}
	nt := 1 + rng.IntN(g.N)
	rc.Targets = rng.Perm(g.N)[:nt]
	sort.Ints(rc.Targets)
	if rng.IntN(5) != 0 {
		rc.StopAt = time.Duration(rng.IntN(40)) * time.Second
	}
	if rng.IntN(6) == 0 {
		rc.StopOnFl = false
	}
	if rng.IntN(6) == 0 {
		rc.PreStop = rng.IntN(g.N)
	}
	return rc
}

func TestC18(t *testing.T) {
	run := vt.NewRun("C18", "exploration")
	run.SetRule("case = (acyclic dependency graph, target set, which modules have services) for initialisation order; (graph, absent ordered pair incl. u=u) for cycle rejection, decided by the harness's own DFS; (graph, targets, per-module start/stop latency, one module failing in starting/running/stopping or ending by itself, stop request time incl. during start-up, stop-all-on-failure listener) for run time, executed through the real modules.Manager + services.Manager in a synctest bubble with a listener on every underlying service; checked on the recorded timeline: a service enters Starting only while all its dependencies are Running, a dependency enters Stopping (unless its own running function ended) only when every started dependant is terminal, dependants of a module that failed to start are never started and fail, failures are not lost, nothing moves after the manager reported stopped. All DAGs on <= 4 modules (thorough 5) x all target subsets for init/cycles; run time on exhaustive 3-module DAGs and random DAGs up to 12 modules. non-trivial = cycle-closing pair / more than one service; distinct by case; distinct timelines counted.")
	maxN := 4
	if vt.Thorough() {
		maxN = 5
	}
	type gm struct {
		n    int
		mask uint64
	}
	var dags []gm
	for n := 1; n <= maxN; n++ {
		for mask := uint64(0); mask < 1<<(n*(n-1)/2); mask++ {
			dags = append(dags, gm{n, mask})
		}
	}
	run.SetExtra("dags_enumerated", len(dags))
	run.ForEach("init", len(dags), func(c vt.CaseID, rng *rand.Rand, s *vt.Slot) {
		e := dags[c.Idx]
		order := rng.Perm(e.n)
		g := dagFromMask(e.n, e.mask, order)
		for tm := 1; tm < 1<<e.n; tm++ {
			var targets []int
			for i := 0; i < e.n; i++ {
				if tm>>i&1 == 1 {
					targets = append(targets, i)
				}
			}
			rng.Shuffle(len(targets), func(a, b int) { targets[a], targets[b] = targets[b], targets[a] })
			ws := rng.Uint64()
			s.Enter(c, "crash/init")
			checkInit(run, c, g, targets, ws, rng)
			s.Leave()
			run.EvalH(vt.Mix(uint64(e.n), e.mask, uint64(tm), 1), len(targets) < e.n)
		}
		if c.Idx == 40 {
			run.Sample(map[string]any{"kind": "init", "graph": g})
		}
	})
	// random larger graphs for init
	run.ForEach("init-rand", vt.N(2000, 40000), func(c vt.CaseID, rng *rand.Rand, s *vt.Slot) {
		n := 6 + rng.IntN(7)
		order := rng.Perm(n)
		var mask uint64
		for b := 0; b < n*(n-1)/2; b++ {
			if rng.IntN(4) == 0 {
				mask |= 1 << b
			}
		}
		g := dagFromMask(n, mask, order)
		nt := 1 + rng.IntN(n)
		targets := rng.Perm(n)[:nt]
		s.Enter(c, "crash/init-rand")
		checkInit(run, c, g, targets, rng.Uint64(), rng)
		s.Leave()
		run.EvalH(vt.Mix(uint64(n), mask, vt.Hash64(fmt.Sprint(targets))), true)
	})
	// cycle rejection (own process slot: a wrongly accepted cycle may overflow the stack later)
	run.ForEach("cycles", len(dags), func(c vt.CaseID, rng *rand.Rand, s *vt.Slot) {
		e := dags[c.Idx]
		g := dagFromMask(e.n, e.mask, rng.Perm(e.n))
		checkCycles(run, c, g, s)
	})
	run.ForEach("cycles-rand", vt.N(300, 5000), func(c vt.CaseID, rng *rand.Rand, s *vt.Slot) {
		n := 6 + rng.IntN(7)
		var mask uint64
		for b := 0; b < n*(n-1)/2; b++ {
			if rng.IntN(4) == 0 {
				mask |= 1 << b
			}
		}
		checkCycles(run, c, dagFromMask(n, mask, rng.Perm(n)), s)
	})
	// run time
	var small []gm
	for n := 2; n <= 3; n++ {
		for mask := uint64(0); mask < 1<<(n*(n-1)/2); mask++ {
			small = append(small, gm{n, mask})
		}
	}
	run.ForEachT(t, "runtime-small", len(small)*vt.N(60, 1500), func(t *testing.T, c vt.CaseID, rng *rand.Rand, s *vt.Slot) {
		e := small[int(c.Idx)%len(small)]
		g := dagFromMask(e.n, e.mask, rng.Perm(e.n))
		s.Enter(c, "crash/runtime-small")
		runRuntime(t, run, c, randomRuntime(rng, g))
		s.Leave()
	})
	run.ForEachT(t, "runtime-rand", vt.N(1500, 40000), func(t *testing.T, c vt.CaseID, rng *rand.Rand, s *vt.Slot) {
		n := 2 + rng.IntN(11)
		var mask uint64
		for b := 0; b < n*(n-1)/2; b++ {
			if rng.IntN(3) == 0 {
				mask |= 1 << b
			}
		}
		g := dagFromMask(n, mask, rng.Perm(n))
		s.Enter(c, "crash/runtime-rand")
		runRuntime(t, run, c, randomRuntime(rng, g))
		s.Leave()
	})
	_ = errors.New
	run.Finish(t)
}

// TestC18Race: the run-time scenarios again under the race detector.
func TestC18Race(t *testing.T) {
	run := vt.NewRun("C18", "exploration")
	run.SetRule("run-time scenarios on random DAGs executed under the Go race detector (same timeline monitors).")
	run.ForEachT(t, "runtime-race", vt.N(800, 15000), func(t *testing.T, c vt.CaseID, rng *rand.Rand, s *vt.Slot) {
		n := 2 + rng.IntN(8)
		var mask uint64
		for b := 0; b < n*(n-1)/2; b++ {
			if rng.IntN(3) == 0 {
				mask |= 1 << b
			}
		}
		g := dagFromMask(n, mask, rng.Perm(n))
		s.Enter(c, "crash/runtime-race")
		runRuntime(t, run, c, randomRuntime(rng, g))
		s.Leave()
	})
	run.Finish(t)
}
