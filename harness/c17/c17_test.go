package c17

import (
	"context"
	"errors"
	"fmt"
	"math/rand/v2"
	"strings"
	"sync"
	"sync/atomic"
	"testing"
	"testing/synctest"
	"time"

	"github.com/grafana/dskit/services"

	"verifharness/vt"
)

// ---------------------------------------------------------------------------
// reference model of one service (written from the statement)

type mstate int

const (
	mNew mstate = iota
	mStarting
	mRunning
	mStopping
	mTerminated
	mFailed
)

var mnames = []string{"New", "Starting", "Running", "Stopping", "Terminated", "Failed"}

func (m mstate) String() string { return mnames[m] }

type model struct {
	st          mstate
	parentDone  bool
	ctxDone     bool // service context cancelled (stop requested or parent cancelled)
	startCalled int
	runCalled   int
	stopCalled  int
	runErr      error
	cause       error
	stopFrom    mstate
	transitions []string // every transition so far, in order
	everRunning bool
}

func (m *model) tr(s string) { m.transitions = append(m.transitions, s) }

// actions; each returns false if not enabled (then nothing is done to the real service either)
func (m *model) start() (ok bool) {
	if m.st != mNew {
		return false
	}
	m.st = mStarting
	m.startCalled++
	m.ctxDone = m.parentDone
	m.tr("Starting")
	return true
}

func (m *model) stop() {
	switch m.st {
	case mNew:
		m.st = mTerminated
		m.tr("Terminated(from New)")
	case mStarting, mRunning:
		m.ctxDone = true
	}
}

func (m *model) cancelParent() {
	m.parentDone = true
	if m.st != mNew {
		m.ctxDone = true
	}
}

func (m *model) relStart(err error) bool {
	if m.st != mStarting {
		return false
	}
	switch {
	case err != nil:
		m.st, m.cause = mFailed, err
		m.tr("Failed(from Starting)")
	case m.ctxDone:
		m.st, m.stopFrom = mStopping, mStarting
		m.stopCalled++
		m.tr("Stopping(from Starting)")
	default:
		m.st = mRunning
		m.everRunning = true
		m.runCalled++
		m.tr("Running")
	}
	return true
}

func (m *model) relRun(err error) bool {
	if m.st != mRunning {
		return false
	}
	m.runErr = err
	m.st, m.stopFrom = mStopping, mRunning
	m.ctxDone = true
	m.stopCalled++
	m.tr("Stopping(from Running)")
	return true
}

func (m *model) relStop(err error) bool {
	if m.st != mStopping {
		return false
	}
	f := m.runErr
	if f == nil {
		f = err
	}
	if f != nil {
		m.st, m.cause = mFailed, f
		m.tr("Failed(from Stopping)")
	} else {
		m.st = mTerminated
		m.tr("Terminated(from Stopping)")
	}
	return true
}

func (m *model) terminal() bool { return m.st == mTerminated || m.st == mFailed }

// can Running still be reached?
func (m *model) runningReachedOrUnreachable() bool {
	return m.everRunning || m.st == mStopping || m.terminal()
}

// ---------------------------------------------------------------------------
// the real service under observation

type uerr struct{ s string }

func (e uerr) Error() string { return e.s }

type recListener struct {
	name    string
	mu      sync.Mutex
	events  []string
	inside  atomic.Int32
	overlap atomic.Bool
	removed atomic.Bool
	afterRm atomic.Bool
	regAt   int // number of model transitions at registration
	remove  func()
}

func (l *recListener) rec(s string) {
	if l.inside.Add(1) != 1 {
		l.overlap.Store(true)
	}
	if l.removed.Load() {
		l.afterRm.Store(true)
	}
	l.mu.Lock()
	l.events = append(l.events, s)
	l.mu.Unlock()
	time.Sleep(time.Millisecond) // virtual: gives a concurrent callback the chance to overlap
	l.inside.Add(-1)
}
func (l *recListener) Starting()                 { l.rec("Starting") }
func (l *recListener) Running()                  { l.rec("Running") }
func (l *recListener) Stopping(f services.State) { l.rec(fmt.Sprintf("Stopping(from %v)", f)) }
func (l *recListener) Terminated(f services.State) {
	l.rec(fmt.Sprintf("Terminated(from %v)", f))
}
func (l *recListener) Failed(f services.State, _ error) { l.rec(fmt.Sprintf("Failed(from %v)", f)) }
func (l *recListener) snapshot() []string {
	l.mu.Lock()
	defer l.mu.Unlock()
	return append([]string(nil), l.events...)
}

type waiter struct {
	target   string // Running | Terminated
	deadline bool
	done     atomic.Bool
	err      error
	startAt  int
}

type svc struct {
	name string
	s    *services.BasicService
	m    model

	gateStart, gateRun, gateStop chan error
	fnLog                        []string
	fnMu                         sync.Mutex
	stopCtxErrAtEntry            error
	stopArg                      error
	stopArgSet                   bool
	parentCancel                 context.CancelFunc
	parent                       context.Context
	listeners                    []*recListener
	waiters                      []*waiter
}

func newSvc(name string) *svc {
	v := &svc{name: name, gateStart: make(chan error, 1), gateRun: make(chan error, 1), gateStop: make(chan error, 1)}
	v.parent, v.parentCancel = context.WithCancel(context.Background())
	logf := func(s string) {
		v.fnMu.Lock()
		v.fnLog = append(v.fnLog, s)
		v.fnMu.Unlock()
	}
	v.s = services.NewBasicService(
		func(ctx context.Context) error { logf("start:enter"); e := <-v.gateStart; logf("start:exit"); return e },
		func(ctx context.Context) error { logf("run:enter"); e := <-v.gateRun; logf("run:exit"); return e },
		func(failure error) error {
			v.fnMu.Lock()
			v.stopCtxErrAtEntry = v.s.ServiceContext().Err()
			v.stopArg, v.stopArgSet = failure, true
			v.fnLog = append(v.fnLog, "stop:enter")
			v.fnMu.Unlock()
			e := <-v.gateStop
			logf("stop:exit")
			return e
		},
	).WithName(name)
	return v
}

func (v *svc) addListener() {
	l := &recListener{name: fmt.Sprintf("%s-L%d", v.name, len(v.listeners)), regAt: len(v.m.transitions)}
	l.remove = v.s.AddListener(l)
	v.listeners = append(v.listeners, l)
}

func (v *svc) addWaiter(target string, deadline bool) {
	w := &waiter{target: target, deadline: deadline, startAt: len(v.m.transitions)}
	v.waiters = append(v.waiters, w)
	go func() {
		ctx := context.Background()
		if deadline {
			var c context.CancelFunc
			ctx, c = context.WithTimeout(ctx, 10*time.Second)
			defer c()
		}
		if target == "Running" {
			w.err = v.s.AwaitRunning(ctx)
		} else {
			w.err = v.s.AwaitTerminated(ctx)
		}
		w.done.Store(true)
	}()
}

var realToModel = map[services.State]mstate{services.New: mNew, services.Starting: mStarting, services.Running: mRunning, services.Stopping: mStopping, services.Terminated: mTerminated, services.Failed: mFailed}

// check compares the real service with the model at a quiescent point.
func (v *svc) check(viol func(sig, what string, extra map[string]any), final bool) {
	m := &v.m
	if got := realToModel[v.s.State()]; got != m.st {
		viol("state-differs-from-model", fmt.Sprintf("%s: State()=%v, the state machine gives %v", v.name, got, m.st), nil)
	}
	fc := v.s.FailureCase()
	if (m.st == mFailed) != (fc != nil) || (fc != nil && fc != m.cause) {
		viol("failure-cause", fmt.Sprintf("%s: FailureCase()=%v, expected %v (first error)", v.name, fc, m.cause), nil)
	}
	// functions: at most once, in order, stopping iff starting succeeded, context cancelled before stopping
	v.fnMu.Lock()
	log := strings.Join(v.fnLog, " ")
	cnt := func(s string) int { return strings.Count(log, s) }
	if cnt("start:enter") != m.startCalled || cnt("run:enter") != m.runCalled || cnt("stop:enter") != m.stopCalled {
		viol("function-invocations", fmt.Sprintf("%s: functions invoked start=%d run=%d stop=%d, expected %d/%d/%d; log: %s", v.name, cnt("start:enter"), cnt("run:enter"), cnt("stop:enter"), m.startCalled, m.runCalled, m.stopCalled, log), nil)
	}
	legalPrefixes := []string{"start:enter start:exit run:enter run:exit stop:enter stop:exit", "start:enter start:exit stop:enter stop:exit"}
	okOrder := false
	for _, lp := range legalPrefixes {
		if strings.HasPrefix(lp, log) {
			okOrder = true
		}
	}
	if !okOrder {
		viol("function-order", v.name+": functions ran out of order or overlapped: "+log, nil)
	}
	if v.stopArgSet {
		if v.stopCtxErrAtEntry == nil {
			viol("context-live-at-stopping", v.name+": the service context was not cancelled when the stopping function started", nil)
		}
		if v.stopArg != m.runErr {
			viol("stopping-fn-argument", fmt.Sprintf("%s: stopping function got failure %v, the running function returned %v", v.name, v.stopArg, m.runErr), nil)
		}
	}
	v.fnMu.Unlock()
	// listeners
	for _, l := range v.listeners {
		want := m.transitions[l.regAt:]
		got := l.snapshot()
		if l.overlap.Load() {
			viol("listener-callbacks-overlap", l.name+": two callbacks of one listener ran at the same time", nil)
		}
		if l.afterRm.Load() {
			viol("listener-called-after-removal", l.name+": callback after the listener was removed", nil)
		}
		if l.removed.Load() {
			// must be a prefix of the expected sequence
			if len(got) > len(want) || strings.Join(got, ",") != strings.Join(want[:len(got)], ",") {
				viol("listener-sequence", fmt.Sprintf("%s (removed): saw %v, transitions since registration %v", l.name, got, want), nil)
			}
			continue
		}
		if strings.Join(got, ",") != strings.Join(want, ",") {
			sig := "listener-sequence"
			if len(got) < len(want) {
				sig = "listener-missed-transition"
			} else if len(got) > len(want) {
				sig = "listener-extra-or-repeated-transition"
			}
			viol(sig, fmt.Sprintf("%s: saw %v, transitions since registration %v", l.name, got, want), nil)
		}
	}
	// waiters
	for i, w := range v.waiters {
		var must bool
		var wantNil bool
		if w.target == "Running" {
			must = m.runningReachedOrUnreachable()
			wantNil = m.st == mRunning // step mode: the service is still parked in its running function
		} else {
			must = m.terminal()
			wantNil = m.st == mTerminated
		}
		done := w.done.Load()
		if w.deadline && done && errors.Is(w.err, context.DeadlineExceeded) {
			if must && false {
				_ = i
			}
			continue
		}
		if done && !must {
			viol("waiter-returned-early", fmt.Sprintf("%s: Await%s returned (%v) while the state is %v and the target is neither reached nor unreachable", v.name, w.target, w.err, m.st), nil)
		}
		if !done && must {
			viol("waiter-still-blocked", fmt.Sprintf("%s: Await%s still blocked although the target state is reached or unreachable (state %v)", v.name, w.target, m.st), nil)
		}
		if done && must && !w.deadline {
			// value: nil only if the target state was reached
			if w.err == nil && !((w.target == "Running" && m.everRunning) || (w.target == "Terminated" && m.st == mTerminated)) {
				viol("waiter-nil-without-target", fmt.Sprintf("%s: Await%s returned nil but the target state was never reached (state %v)", v.name, w.target, m.st), nil)
			}
			if w.err != nil && w.target == "Terminated" && wantNil {
				viol("waiter-error-despite-target", fmt.Sprintf("%s: AwaitTerminated returned %v although the service terminated", v.name, w.err), nil)
			}
			if w.err != nil && w.target == "Terminated" && m.st == mFailed && !errors.Is(w.err, m.cause) {
				viol("waiter-error-without-cause", fmt.Sprintf("%s: AwaitTerminated error %v does not carry the failure cause %v", v.name, w.err, m.cause), nil)
			}
		}
	}
}

// apply performs one action on the real service and the model. Returns whether it was enabled.
func (v *svc) apply(a string, viol func(sig, what string, extra map[string]any)) bool {
	m := &v.m
	switch a {
	case "start":
		err := v.s.StartAsync(v.parent)
		ok := m.start()
		if ok != (err == nil) {
			viol("startasync-result", fmt.Sprintf("%s: StartAsync returned %v in model state %v", v.name, err, m.st), nil)
		}
		return true
	case "stop":
		v.s.StopAsync()
		m.stop()
		return true
	case "cancel":
		if m.parentDone {
			return false
		}
		v.parentCancel()
		m.cancelParent()
		return true
	case "addl":
		if len(v.listeners) >= 4 {
			return false
		}
		v.addListener()
		return true
	case "rml":
		for _, l := range v.listeners {
			if !l.removed.Load() {
				l.remove()
				l.removed.Store(true)
				return true
			}
		}
		return false
	case "waitR", "waitT", "waitRd", "waitTd":
		if len(v.waiters) >= 4 {
			return false
		}
		v.addWaiter(map[byte]string{'R': "Running", 'T': "Terminated"}[a[4]], len(a) == 6)
		return true
	case "startOK", "startERR":
		var e error
		if a == "startERR" {
			e = uerr{v.name + " start failed"}
		}
		if !m.relStart(e) {
			return false
		}
		v.gateStart <- e
		return true
	case "runOK", "runERR":
		var e error
		if a == "runERR" {
			e = uerr{v.name + " run failed"}
		}
		if !m.relRun(e) {
			return false
		}
		v.gateRun <- e
		return true
	case "stopOK", "stopERR":
		var e error
		if a == "stopERR" {
			e = uerr{v.name + " stop failed"}
		}
		if !m.relStop(e) {
			return false
		}
		v.gateStop <- e
		return true
	}
	panic("unknown action " + a)
}

// finish drives the service (and its model) to a terminal state so the bubble can end.
func (v *svc) finish(viol func(sig, what string, extra map[string]any)) {
	v.apply("stop", viol)
	synctest.Wait()
	for i := 0; i < 3; i++ {
		for _, a := range []string{"startOK", "runOK", "stopOK"} {
			if v.apply(a, viol) {
				synctest.Wait()
				time.Sleep(5 * time.Millisecond)
				synctest.Wait()
			}
		}
	}
	for _, l := range v.listeners {
		if !l.removed.Load() {
			l.remove()
			l.removed.Store(true)
		}
	}
	time.Sleep(11 * time.Second) // waiter deadlines
	synctest.Wait()
}

var coreActions = []string{"start", "stop", "cancel", "addl", "startOK", "startERR", "runOK", "runERR", "stopOK", "stopERR"}
var allActions = append(append([]string(nil), coreActions...), "rml", "waitR", "waitT", "waitRd", "waitTd", "stop")

func runSingle(t *testing.T, run *vt.Run, c vt.CaseID, script []string, gen string) {
	synctest.Test(t, func(t *testing.T) {
		v := newSvc("svc")
		var done []string
		viol := func(sig, what string, extra map[string]any) {
			d := map[string]any{"script": script, "performed": done}
			for k, x := range extra {
				d[k] = x
			}
			run.Violation(c, "service/"+sig, what, d)
		}
		// a listener registered before StartAsync sees all transitions
		v.addListener()
		v.addWaiter("Running", false)
		v.addWaiter("Terminated", false)
		// a failure watcher on the single service: one error, wrapping the failure cause, iff the service ends Failed
		fw := services.NewFailureWatcher()
		fw.WatchService(v.s)
		var fwMu sync.Mutex
		var fwErrs []error
		fwDone := make(chan struct{})
		go func() {
			defer close(fwDone)
			for e := range fw.Chan() {
				fwMu.Lock()
				fwErrs = append(fwErrs, e)
				fwMu.Unlock()
			}
		}()
		defer func() {
			synctest.Wait()
			fwMu.Lock()
			got := append([]error(nil), fwErrs...)
			fwMu.Unlock()
			st := v.s.State()
			run.Count("single_service_failure_watchers_judged", 1)
			switch {
			case st == services.Failed && len(got) != 1:
				viol("failure-watcher", fmt.Sprintf("the service ended Failed but the failure watcher delivered %d errors", len(got)), nil)
			case st == services.Failed && !errors.Is(got[0], v.s.FailureCase()):
				viol("failure-watcher", fmt.Sprintf("the failure watcher delivered %v, which does not wrap the failure cause %v", got[0], v.s.FailureCase()), nil)
			case st != services.Failed && len(got) != 0:
				viol("failure-watcher", fmt.Sprintf("the service is %v but the failure watcher delivered %v", st, got), nil)
			}
			fw.Close()
			<-fwDone
		}()
		synctest.Wait()
		v.check(viol, false)
		for _, a := range script {
			if !v.apply(a, viol) {
				continue
			}
			done = append(done, a)
			synctest.Wait()
			time.Sleep(5 * time.Millisecond) // let listener callbacks (1 ms virtual each) finish
			synctest.Wait()
			v.check(viol, false)
		}
		// complete path of a fully observed listener must be one of the seven paths of the state diagram
		path := strings.Join(v.m.transitions, ",")
		run.Distinct("path|" + path)
		run.EvalH(vt.Hash64(gen+strings.Join(done, ",")), len(done) >= 3)
		if len(done) >= 5 && run.WantSample() {
			run.Sample(map[string]any{"kind": "single service", "actions": done, "transitions": v.m.transitions})
		}
		v.finish(viol)
		v.check(viol, true)
	})
}

// ---------------------------------------------------------------------------
// managers

type mgrListener struct {
	mu      sync.Mutex
	healthy int
	stopped int
	failed  map[string]int
	order   []string
}

func (l *mgrListener) Healthy() {
	l.mu.Lock()
	l.healthy++
	l.order = append(l.order, "Healthy")
	l.mu.Unlock()
}
func (l *mgrListener) Stopped() {
	l.mu.Lock()
	l.stopped++
	l.order = append(l.order, "Stopped")
	l.mu.Unlock()
}
func (l *mgrListener) Failure(s services.Service) {
	l.mu.Lock()
	l.failed[services.DescribeService(s)]++
	l.order = append(l.order, "Failure:"+services.DescribeService(s))
	l.mu.Unlock()
}

func runManager(t *testing.T, run *vt.Run, c vt.CaseID, rng *rand.Rand, concurrent bool) {
	synctest.Test(t, func(t *testing.T) {
		n := 1 + rng.IntN(3)
		var svcs []*svc
		var ss []services.Service
		for i := 0; i < n; i++ {
			v := newSvc(fmt.Sprintf("s%d", i))
			svcs = append(svcs, v)
			ss = append(ss, v.s)
		}
		// one parent context for all services of the manager (Manager.StartAsync takes one)
		shared, sharedCancel := context.WithCancel(context.Background())
		defer sharedCancel()
		for _, v := range svcs {
			v.parent = shared
			v.parentCancel = func() {
				sharedCancel()
				for _, o := range svcs {
					o.m.cancelParent()
				}
			}
		}
		mgr, err := services.NewManager(ss...)
		if err != nil {
			run.Inconclusive("NewManager: " + err.Error())
			return
		}
		ml := &mgrListener{failed: map[string]int{}}
		mgr.AddListener(ml)
		fw := services.NewFailureWatcher()
		fw.WatchManager(mgr)
		var fwMu sync.Mutex
		var fwErrs []error
		fwDone := make(chan struct{})
		go func() {
			defer close(fwDone)
			for e := range fw.Chan() {
				fwMu.Lock()
				fwErrs = append(fwErrs, e)
				fwMu.Unlock()
			}
		}()
		var done []string
		viol := func(sig, what string, extra map[string]any) {
			d := map[string]any{"services": n, "performed": done}
			for k, x := range extra {
				d[k] = x
			}
			run.Violation(c, "manager/"+sig, what, d)
		}
		type mwaiter struct {
			healthy bool
			done    atomic.Bool
			err     error
		}
		var mws []*mwaiter
		addMW := func(h bool) {
			w := &mwaiter{healthy: h}
			mws = append(mws, w)
			go func() {
				if h {
					w.err = mgr.AwaitHealthy(context.Background())
				} else {
					w.err = mgr.AwaitStopped(context.Background())
				}
				w.done.Store(true)
			}()
		}
		addMW(true)
		addMW(false)
		everHealthy := false
		everUnhealthyForGood := false
		checkMgr := func() {
			allRunning, allTerminal, anyLeft := true, true, false
			failedWant := map[string]int{}
			for _, v := range svcs {
				v.check(func(sig, what string, extra map[string]any) { viol("service/"+sig, what, extra) }, false)
				if v.m.st != mRunning {
					allRunning = false
				}
				if !v.m.terminal() {
					allTerminal = false
				}
				if v.m.st == mStopping || v.m.terminal() {
					anyLeft = true
				}
				if v.m.st == mFailed {
					failedWant[v.name] = 1
				}
			}
			if allRunning {
				everHealthy = true
			}
			if anyLeft {
				everUnhealthyForGood = true
			}
			if mgr.IsHealthy() != allRunning {
				viol("ishealthy", fmt.Sprintf("IsHealthy()=%v but all-services-running=%v", mgr.IsHealthy(), allRunning), nil)
			}
			if mgr.IsStopped() != allTerminal {
				viol("isstopped", fmt.Sprintf("IsStopped()=%v but all-services-terminal=%v", mgr.IsStopped(), allTerminal), nil)
			}
			if !concurrent {
				// the manager's per-state view at a quiescent point: every service exactly once, under its own state
				by := mgr.ServicesByState()
				seen := 0
				for st, list := range by {
					for _, x := range list {
						seen++
						if x.State() != st {
							viol("services-by-state", fmt.Sprintf("ServicesByState lists a service under %v whose state is %v", st, x.State()), nil)
						}
					}
				}
				if seen != len(svcs) {
					viol("services-by-state", fmt.Sprintf("ServicesByState lists %d services, the manager has %d", seen, len(svcs)), nil)
				}
				run.Count("services_by_state_checked", 1)
			}
			ml.mu.Lock()
			if fmt.Sprint(ml.failed) != fmt.Sprint(failedWant) {
				viol("failure-callbacks", fmt.Sprintf("Failure callbacks %v, failed services %v", ml.failed, failedWant), nil)
			}
			wantHealthy := 0
			if everHealthy {
				wantHealthy = 1
			}
			if (!concurrent && ml.healthy != wantHealthy) || ml.healthy > 1 || ml.healthy < wantHealthy {
				viol("healthy-callbacks", fmt.Sprintf("Healthy callbacks %d, expected %d", ml.healthy, wantHealthy), nil)
			}
			wantStopped := 0
			if allTerminal {
				wantStopped = 1
			}
			if ml.stopped != wantStopped {
				viol("stopped-callbacks", fmt.Sprintf("Stopped callbacks %d, expected %d", ml.stopped, wantStopped), nil)
			}
			ml.mu.Unlock()
			fwMu.Lock()
			if len(fwErrs) != len(failedWant) {
				viol("failure-watcher", fmt.Sprintf("failure watcher delivered %d errors for %d failed services", len(fwErrs), len(failedWant)), nil)
			}
			for _, e := range fwErrs {
				found := false
				for _, v := range svcs {
					if v.m.st == mFailed && errors.Is(e, v.m.cause) {
						found = true
					}
				}
				if !found {
					viol("failure-watcher", fmt.Sprintf("failure watcher error %v is not the cause of any failed service", e), nil)
				}
			}
			fwMu.Unlock()
			for _, w := range mws {
				if w.healthy {
					must := everHealthy || everUnhealthyForGood
					if w.done.Load() != must && !(concurrent && w.done.Load()) {
						viol("awaithealthy", fmt.Sprintf("AwaitHealthy returned=%v, expected returned=%v", w.done.Load(), must), nil)
					}
					if w.done.Load() && w.err == nil && !everHealthy && !concurrent {
						viol("awaithealthy", "AwaitHealthy returned nil but the manager was never healthy", nil)
					}
				} else if w.done.Load() != allTerminal && !(w.done.Load() && allTerminal) {
					if w.done.Load() {
						viol("awaitstopped", "AwaitStopped returned before all services were terminal", nil)
					}
				}
				if !w.healthy && allTerminal && !w.done.Load() {
					viol("awaitstopped", "AwaitStopped still blocked although all services are terminal", nil)
				}
			}
		}
		acts := []string{"startOK", "startOK", "startERR", "runOK", "runERR", "stopOK", "stopOK", "stopERR", "stop", "cancel", "start"}
		steps := 4 + rng.IntN(14)
		if concurrent {
			acts = acts[:len(acts)-2] // no shared-parent cancellation / second start while others act (order-dependent)
			acts = append(acts, "start")
			// fire without waiting: real goroutine interleavings (race detector on)
			var wg sync.WaitGroup
			if rng.IntN(2) == 0 {
				mgr.StartAsync(shared)
				for _, v := range svcs {
					v.m.start()
				}
			}
			type pa struct {
				v *svc
				a string
			}
			var plan []pa
			for i := 0; i < steps; i++ {
				plan = append(plan, pa{svcs[rng.IntN(n)], acts[rng.IntN(len(acts))]})
			}
			// the model is applied sequentially in plan order per service; real actions of
			// different services run in parallel goroutines, those of one service in order.
			per := map[*svc][]string{}
			for _, p := range plan {
				per[p.v] = append(per[p.v], p.a)
			}
			for v, as := range per {
				wg.Add(1)
				go func(v *svc, as []string) {
					defer wg.Done()
					for _, a := range as {
						if v.apply(a, func(sig, what string, extra map[string]any) { viol("service/"+sig, what, extra) }) {
							// virtual sleep = barrier at which the whole bubble is idle; all service
							// goroutines wake at the same instant and act truly concurrently
							time.Sleep(6 * time.Millisecond)
						}
					}
				}(v, as)
			}
			wg.Wait()
			done = append(done, fmt.Sprint(plan))
			synctest.Wait()
			time.Sleep(10 * time.Millisecond)
			synctest.Wait()
			checkMgr()
		} else {
			for i := 0; i < steps; i++ {
				var a string
				var ok bool
				r := rng.IntN(10)
				switch {
				case r == 0:
					mgr.StartAsync(shared) // may fail half-way if some service was started already
					for _, v := range svcs {
						if !v.m.start() {
							break
						}
					}
					a, ok = "mgr.StartAsync", true
				case r == 1:
					mgr.StopAsync()
					for _, v := range svcs {
						v.m.stop()
					}
					a, ok = "mgr.StopAsync", true
				case r == 2 && len(mws) < 6:
					addMW(rng.IntN(2) == 0)
					a, ok = "mgr.Await", true
				default:
					v := svcs[rng.IntN(n)]
					x := acts[rng.IntN(len(acts))]
					ok = v.apply(x, func(sig, what string, extra map[string]any) { viol("service/"+sig, what, extra) })
					a = v.name + "." + x
				}
				if !ok {
					continue
				}
				done = append(done, a)
				synctest.Wait()
				time.Sleep(5 * time.Millisecond)
				synctest.Wait()
				checkMgr()
			}
		}
		run.EvalH(vt.Hash64(strings.Join(done, ",")), n > 1)
		if !concurrent && n > 1 && len(done) > 6 && run.WantSample() {
			run.Sample(map[string]any{"kind": "manager", "services": n, "actions": done})
		}
		for _, v := range svcs {
			v.finish(func(sig, what string, extra map[string]any) { viol("service/"+sig, what, extra) })
		}
		synctest.Wait()
		time.Sleep(10 * time.Millisecond)
		synctest.Wait()
		checkMgr()
		fw.Close()
		<-fwDone
	})
}

// ---------------------------------------------------------------------------
// idle and timer services

func runTimer(t *testing.T, run *vt.Run, c vt.CaseID, rng *rand.Rand) {
	synctest.Test(t, func(t *testing.T) {
		interval := time.Duration(1+rng.IntN(5)) * time.Second
		failAt := -1
		if rng.IntN(2) == 0 {
			failAt = 1 + rng.IntN(5)
		}
		iterBlock := rng.IntN(3) == 0
		var iters atomic.Int32
		iterGate := make(chan struct{})
		itErr := uerr{"iteration failed"}
		var stopArg error
		var stopCalled atomic.Int32
		idle := rng.IntN(4) == 0
		var s *services.BasicService
		if idle {
			s = services.NewIdleService(func(context.Context) error { return nil }, func(f error) error { stopArg = f; stopCalled.Add(1); return nil })
		} else {
			s = services.NewTimerService(interval, nil, func(ctx context.Context) error {
				n := int(iters.Add(1))
				if iterBlock && n == 2 {
					<-iterGate
				}
				if n == failAt {
					return itErr
				}
				return nil
			}, func(f error) error { stopArg = f; stopCalled.Add(1); return nil })
		}
		l := &recListener{name: "timer-L"}
		s.AddListener(l)
		viol := func(sig, what string) {
			run.Violation(c, "timer/"+sig, what, map[string]any{"idle": idle, "interval": interval.String(), "fail_at_iteration": failAt, "block_in_iteration_2": iterBlock, "listener": l.snapshot()})
		}
		if err := s.StartAsync(context.Background()); err != nil {
			viol("start", err.Error())
		}
		synctest.Wait()
		if s.State() != services.Running {
			viol("not-running", "idle/timer service not running after start")
		}
		runFor := time.Duration(rng.IntN(8)) * interval
		time.Sleep(runFor + interval/2)
		synctest.Wait()
		wantIters := int(runFor / interval)
		if idle {
			wantIters = 0
		}
		failed := failAt > 0 && wantIters >= failAt && !idle
		blocked := iterBlock && wantIters >= 2 && !(failed && failAt < 2) && !idle
		if blocked {
			// parked inside iteration 2: a stop request must wait for the iteration
			s.StopAsync()
			synctest.Wait()
			if s.State() != services.Running {
				viol("stopped-during-iteration", fmt.Sprintf("state %v while an iteration is still running", s.State()))
			}
			close(iterGate)
			synctest.Wait()
			time.Sleep(5 * time.Millisecond)
			synctest.Wait()
			// a tick that fired while the iteration was parked may legitimately be served
			// before the cancellation is noticed (both select branches are ready): one more
			// iteration is allowed, not required.
			st := s.State()
			okState := st == services.Terminated && failAt != 2
			if failAt == 2 || failAt == 3 {
				okState = okState || (st == services.Failed && s.FailureCase() == itErr)
			}
			if !okState {
				viol("state-after-blocked-iteration", fmt.Sprintf("state %v (cause %v) after stop during iteration 2, failing iteration %d", st, s.FailureCase(), failAt))
			}
			if n := int(iters.Load()); n < 2 || n > 3 {
				viol("iterations-after-stop", fmt.Sprintf("%d iterations ran although stop was requested during the 2nd", n))
			}
		} else if failed {
			if s.State() != services.Failed || s.FailureCase() != itErr {
				viol("iteration-error-not-failure", fmt.Sprintf("state %v cause %v after an iteration returned an error", s.State(), s.FailureCase()))
			}
			if int(iters.Load()) != failAt {
				viol("iterations-after-error", fmt.Sprintf("%d iterations ran, the %d-th failed", iters.Load(), failAt))
			}
			if stopArg != itErr {
				viol("stopping-fn-argument", fmt.Sprintf("stopping function got %v", stopArg))
			}
		} else {
			if !idle && int(iters.Load()) != wantIters {
				viol("iteration-count", fmt.Sprintf("%d iterations in %v with interval %v", iters.Load(), runFor+interval/2, interval))
			}
			if s.State() != services.Running {
				viol("not-running", fmt.Sprintf("state %v while it should be running", s.State()))
			}
			s.StopAsync()
			synctest.Wait()
			time.Sleep(5 * time.Millisecond)
			synctest.Wait()
			if s.State() != services.Terminated {
				viol("not-terminated", fmt.Sprintf("state %v after stop", s.State()))
			}
		}
		if !blocked {
			close(iterGate)
		}
		time.Sleep(5 * time.Millisecond)
		synctest.Wait()
		if stopCalled.Load() != 1 {
			viol("stopping-fn-count", fmt.Sprintf("stopping function ran %d times", stopCalled.Load()))
		}
		ev := strings.Join(l.snapshot(), ",")
		legal := map[string]bool{
			"Starting,Running,Stopping(from Running),Terminated(from Stopping)": true,
			"Starting,Running,Stopping(from Running),Failed(from Stopping)":     true,
		}
		if !legal[ev] {
			viol("listener-path", "listener saw an illegal path: "+ev)
		}
		run.EvalH(vt.Hash64(fmt.Sprint(idle, interval, failAt, iterBlock, runFor)), true)
	})
}

// ---------------------------------------------------------------------------

func enumerate(alphabet []string, maxLen int, f func([]string)) {
	// enabledness pruning with a throw-away model
	var rec func(prefix []string, m model, listeners int)
	rec = func(prefix []string, m model, listeners int) {
		if len(prefix) > 0 {
			f(append([]string(nil), prefix...))
		}
		if len(prefix) == maxLen {
			return
		}
		for _, a := range alphabet {
			m2 := m
			m2.transitions = nil
			l2 := listeners
			ok := true
			switch a {
			case "start":
				ok = count(prefix, "start") < 2
				m2.start()
			case "stop":
				ok = count(prefix, "stop") < 3
				m2.stop()
			case "cancel":
				ok = !m2.parentDone
				m2.cancelParent()
			case "addl":
				ok = l2 < 2
				l2++
			case "startOK":
				ok = m2.relStart(nil)
			case "startERR":
				ok = m2.relStart(uerr{"x"})
			case "runOK":
				ok = m2.relRun(nil)
			case "runERR":
				ok = m2.relRun(uerr{"x"})
			case "stopOK":
				ok = m2.relStop(nil)
			case "stopERR":
				ok = m2.relStop(uerr{"x"})
			}
			if !ok {
				continue
			}
			rec(append(prefix, a), m2, l2)
		}
	}
	rec(nil, model{}, 0)
}

func count(xs []string, x string) int {
	n := 0
	for _, y := range xs {
		if y == x {
			n++
		}
	}
	return n
}

func TestC17(t *testing.T) {
	run := vt.NewRun("C17", "exploration")
	run.SetRule("case = an action script on one gated service (StartAsync, StopAsync, parent cancellation, AddListener/remove, waiters with and without deadline, release of the starting/running/stopping function with nil or a unique error), a manager of 1-3 such services with a FailureWatcher, or an idle/timer service under the virtual clock; one action at a time with synctest.Wait(); after every action the real State/FailureCase/function log/listener logs/waiters are compared with a reference state machine written from the statement, and manager health/stopped/callbacks with the services' model states. All enabled action sequences up to length 6 (thorough 7) over the core alphabet are enumerated; longer scripts and managers are seeded-random. non-trivial = at least 3 performed actions (service) / more than one service (manager); distinct by performed action sequence; distinct complete transition paths are counted too.")
	maxLen := 6
	if vt.Thorough() {
		maxLen = 7
	}
	var scripts [][]string
	if vt.GenEnabled("enum") {
		enumerate(coreActions, maxLen, func(s []string) { scripts = append(scripts, s) })
		run.SetExtra("enumerated_action_sequences", len(scripts))
		run.SetExtra("enumeration_max_length", maxLen)
	}
	run.ForEachT(t, "enum", len(scripts), func(t *testing.T, c vt.CaseID, rng *rand.Rand, s *vt.Slot) {
		s.Enter(c, "crash/enum")
		runSingle(t, run, c, scripts[c.Idx], "enum")
		s.Leave()
	})
	run.ForEachT(t, "random", vt.N(6000, 150000), func(t *testing.T, c vt.CaseID, rng *rand.Rand, s *vt.Slot) {
		s.Enter(c, "crash/random")
		n := 4 + rng.IntN(14)
		script := make([]string, n)
		for i := range script {
			script[i] = allActions[rng.IntN(len(allActions))]
		}
		if rng.IntN(2) == 0 {
			script[0] = "start"
		}
		runSingle(t, run, c, script, "random")
		s.Leave()
	})
	run.ForEachT(t, "manager", vt.N(6000, 150000), func(t *testing.T, c vt.CaseID, rng *rand.Rand, s *vt.Slot) {
		s.Enter(c, "crash/manager")
		runManager(t, run, c, rng, false)
		s.Leave()
	})
	run.ForEachT(t, "timer", vt.N(1500, 30000), func(t *testing.T, c vt.CaseID, rng *rand.Rand, s *vt.Slot) {
		s.Enter(c, "crash/timer")
		runTimer(t, run, c, rng)
		s.Leave()
	})
	run.Finish(t)
}

var errNotStarted = errors.New("never started by the harness")

func TestC17Race(t *testing.T) {
	run := vt.NewRun("C17", "exploration")
	run.SetRule("concurrent mode under the race detector: actions on the services of a manager fired from one goroutine per service without global waiting; at quiescence the same model comparison as in step mode. Generator start-stop-race: StartAsync and StopAsync of fresh idle services released at the same moment from two goroutines; a returned stop request is never lost.")
	run.ForEachT(t, "concurrent", vt.N(3000, 60000), func(t *testing.T, c vt.CaseID, rng *rand.Rand, s *vt.Slot) {
		s.Enter(c, "crash/concurrent")
		runManager(t, run, c, rng, true)
		s.Leave()
	})
	// StartAsync and StopAsync of one fresh service issued at the same moment from two goroutines (each case races
	// a batch of services): whichever wins, a stop request that has returned is never lost - either the service never
	// started (Terminated from New, StartAsync refused) or it started and, with nothing left to wait for, is Terminated
	// with its context cancelled once the bubble is quiescent.
	run.ForEachT(t, "start-stop-race", vt.N(400, 8000), func(t *testing.T, c vt.CaseID, rng *rand.Rand, s *vt.Slot) {
		s.Enter(c, "crash/start-stop-race")
		defer s.Leave()
		synctest.Test(t, func(t *testing.T) {
			const batch = 40
			type one struct {
				svc      *services.BasicService
				startErr error
			}
			items := make([]*one, batch)
			for i := range items {
				items[i] = &one{svc: services.NewIdleService(nil, nil)}
			}
			gate := make(chan struct{})
			var wg sync.WaitGroup
			for ii, it := range items {
				it := it
				wg.Add(2)
				_ = ii
				// a third of the services get a second concurrent StopAsync, a third two StopAsync and no StartAsync
				mode := (int(c.Idx) + ii) % 3
				if mode != 2 {
					go func() { defer wg.Done(); <-gate; it.startErr = it.svc.StartAsync(context.Background()) }()
				} else {
					it.startErr = errNotStarted
					wg.Done()
				}
				stop := func() {
					defer wg.Done()
					<-gate
					if p, stack := vt.Recover(func() { it.svc.StopAsync() }); p != nil {
						run.Violation(c, "service/stopasync-panicked", fmt.Sprintf("StopAsync panicked while racing another StopAsync/StartAsync on a fresh service: %v", p), map[string]any{"stack": stack})
					}
				}
				go stop()
				if mode != 0 {
					wg.Add(1)
					go stop()
				}
			}
			close(gate)
			wg.Wait()
			synctest.Wait()
			for i, it := range items {
				st := it.svc.State()
				run.EvalH(vt.Mix(uint64(c.Idx), uint64(i), 55), true)
				switch {
				case it.startErr != nil && st != services.Terminated:
					run.Violation(c, "service/start-refused-but-not-terminated", fmt.Sprintf("StartAsync failed (%v) against a concurrent StopAsync, but the service is %v", it.startErr, st), nil)
				case it.startErr == nil && st != services.Terminated:
					run.Violation(c, "service/stop-request-lost", fmt.Sprintf("StartAsync succeeded, the concurrent StopAsync has returned, everything is quiescent, but the service is %v (context error: %v)", st, it.svc.ServiceContext().Err()), nil)
				case it.startErr == nil && it.svc.ServiceContext() != nil && it.svc.ServiceContext().Err() == nil:
					run.Violation(c, "service/stop-request-lost", "the service was started and stopped but its context is still live", nil)
				}
				if it.startErr == nil {
					run.Count("races_won_by_start", 1)
				} else {
					run.Count("races_won_by_stop", 1)
				}
			}
		})
	})
	run.Finish(t)
}
