package c01

import (
	"fmt"
	"math"
	"math/rand/v2"
	"sort"
	"strings"
	"testing"
	"testing/synctest"
	"time"

	"github.com/grafana/dskit/ring"

	"verifharness/rk"
	"verifharness/spec"
	"verifharness/vt"
)

const maxTok = math.MaxUint32

var alphabet = []uint32{0, 1, 2, 3, 1 << 31, 1<<31 - 1, 1<<31 + 1, maxTok - 3, maxTok - 2, maxTok - 1, maxTok}
var smallAlphabet = []uint32{0, 1, 2, maxTok - 2, maxTok - 1, maxTok}

type opPair struct {
	real ring.Operation
	spec spec.Op
}

func builtinOps() []opPair {
	return []opPair{
		{ring.Write, spec.OpWrite},
		{ring.WriteNoExtend, spec.OpWriteNoExtend},
		{ring.Read, spec.OpRead},
		{ring.Reporting, spec.OpReporting},
	}
}

func customOp(rng *rand.Rand) opPair {
	var sp spec.Op
	sp.Name = "custom"
	var healthy []ring.InstanceState
	for s := 0; s < 5; s++ {
		if rng.IntN(2) == 0 {
			sp.Healthy[s] = true
			healthy = append(healthy, ring.InstanceState(s))
		}
		sp.Extend[s] = rng.IntN(3) == 0
	}
	ext := sp.Extend
	sp.Name = fmt.Sprintf("custom(h=%v,e=%v)", sp.Healthy, sp.Extend)
	return opPair{ring.NewOp(healthy, func(s ring.InstanceState) bool { return ext[s] }), sp}
}

type ringCase struct {
	Insts     map[string]spec.Inst `json:"insts"`
	RF        int                  `json:"rf"`
	ZoneAware bool                 `json:"zone_aware"`
	TimeoutS  int64                `json:"timeout_s"`
	NowUnix   int64                `json:"now_unix"`
	OffsetMs  int64                `json:"query_offset_ms"` // the lookups happen at now_unix + this many milliseconds
}

func (rc ringCase) sig() string {
	ids := make([]string, 0, len(rc.Insts))
	for id := range rc.Insts {
		ids = append(ids, id)
	}
	sort.Strings(ids)
	var b strings.Builder
	fmt.Fprintf(&b, "rf%d z%v +%dms|", rc.RF, rc.ZoneAware, rc.OffsetMs)
	for _, id := range ids {
		in := rc.Insts[id]
		fmt.Fprintf(&b, "%s/%s/%d/%d/%v;", id, in.Zone, in.State, rc.NowUnix-in.Heartbeat, in.Tokens)
	}
	return b.String()
}

func hasMaxTok(insts map[string]spec.Inst) bool {
	for _, in := range insts {
		for _, t := range in.Tokens {
			if t == maxTok {
				return true
			}
		}
	}
	return false
}

var bubbleStart = time.Date(2000, 1, 1, 0, 0, 0, 0, time.UTC)

const planOffset = time.Hour

// decorate fills state, zone and heartbeat of instances from the PRNG.
func decorate(rng *rand.Rand, insts map[string]spec.Inst, zones []string, timeoutS int64, now int64, mostlyHealthy bool) {
	ids := make([]string, 0, len(insts))
	for id := range insts {
		ids = append(ids, id)
	}
	sort.Strings(ids)
	for _, id := range ids {
		in := insts[id]
		in.Zone = zones[rng.IntN(len(zones))]
		if mostlyHealthy && rng.IntN(4) != 0 {
			in.State = spec.ACTIVE
		} else {
			in.State = rng.IntN(5)
		}
		ages := []int64{0, timeoutS, timeoutS + 1, 10 * timeoutS, timeoutS - 1, -5}
		if mostlyHealthy && rng.IntN(4) != 0 {
			in.Heartbeat = now
		} else {
			in.Heartbeat = now - ages[rng.IntN(len(ages))]
		}
		insts[id] = in
	}
}

func zoneSet(rng *rand.Rand, zoneAware bool) []string {
	n := rng.IntN(5) // 0..4 zones
	if rng.IntN(4) == 0 {
		n = 5 + rng.IntN(5) // 5..9 zones: the lookup uses heap-allocated per-zone counters above 5 zones
	}
	var z []string
	for i := 0; i < n; i++ {
		z = append(z, fmt.Sprintf("z%d", i))
	}
	if n == 0 || (!zoneAware && rng.IntN(2) == 0) || rng.IntN(6) == 0 {
		z = append(z, "")
	}
	return z
}

func probeKeys(rng *rand.Rand, insts map[string]spec.Inst, extra int) []uint32 {
	set := map[uint32]bool{0: true, maxTok: true, 1: true}
	for _, in := range insts {
		for _, t := range in.Tokens {
			set[t] = true
			set[t-1] = true
			set[t+1] = true
		}
	}
	for i := 0; i < extra; i++ {
		set[rng.Uint32()] = true
	}
	keys := make([]uint32, 0, len(set))
	for k := range set {
		keys = append(keys, k)
	}
	sort.Slice(keys, func(i, j int) bool { return keys[i] < keys[j] })
	return keys
}

// runRingCase publishes the descriptor to real ring clients in a bubble and
// compares every probe with the specification.
func runRingCase(t *testing.T, run *vt.Run, c vt.CaseID, rng *rand.Rand, rc ringCase, nrings int, extraKeys int, meta bool) {
	synctest.Test(t, func(t *testing.T) {
		if !time.Now().Equal(bubbleStart) {
			run.Inconclusive("bubble start time unexpected: " + time.Now().String())
			return
		}
		T := bubbleStart.Add(planOffset)
		if T.Unix() != rc.NowUnix {
			panic("harness: planned instant mismatch")
		}
		cfg := rk.Cfg(rc.RF, rc.ZoneAware, time.Duration(rc.TimeoutS)*time.Second)
		type live struct {
			r    *ring.Ring
			stop func()
		}
		var rings []live
		for i := 0; i < nrings; i++ {
			st := rk.NewStore()
			st.RecordGets = false
			desc := rk.Desc(rc.Insts)
			if (i+int(c.Idx))%2 == 1 {
				// every other copy stores the token lists in reverse order (descriptors written by older versions
				// need not be sorted; the client sorts what it loads)
				for id, e := range desc.Ingesters {
					for a, b := 0, len(e.Tokens)-1; a < b; a, b = a+1, b-1 {
						e.Tokens[a], e.Tokens[b] = e.Tokens[b], e.Tokens[a]
					}
					desc.Ingesters[id] = e
				}
			}
			st.Put("harness", rk.Key, desc)
			r, stop, err := rk.StartRing(cfg, st.Client("ring"), rk.Key)
			if err != nil {
				run.Inconclusive("ring start: " + err.Error())
				return
			}
			rings = append(rings, live{r, stop})
		}
		defer func() {
			for _, l := range rings {
				l.stop()
			}
		}()
		// the same content behind the other stock replication strategy (ignore unhealthy instances): the walk is the
		// same, the lookup returns exactly its healthy members, fails only when there is none and tolerates all but one
		var lenient *ring.Ring
		{
			st := rk.NewStore()
			st.RecordGets = false
			st.Put("harness", rk.Key, rk.Desc(rc.Insts))
			r, stop, err := rk.StartRingWithStrategy(cfg, st.Client("ring"), rk.Key, ring.NewIgnoreUnhealthyInstancesReplicationStrategy())
			if err != nil {
				run.Inconclusive("ring start: " + err.Error())
				return
			}
			defer stop()
			lenient = r
		}
		// metamorphic partner: R plus one instance X
		var metaRing *ring.Ring
		var xid string
		if meta {
			xid = "x-new"
			plus := map[string]spec.Inst{}
			for k, v := range rc.Insts {
				plus[k] = v
			}
			used := map[uint32]bool{}
			for _, in := range rc.Insts {
				for _, tk := range in.Tokens {
					used[tk] = true
				}
			}
			var toks []uint32
			for n := rng.IntN(4); len(toks) < n; {
				var tk uint32
				if rng.IntN(2) == 0 {
					tk = alphabet[rng.IntN(len(alphabet))]
				} else {
					tk = rng.Uint32()
				}
				if !used[tk] {
					used[tk] = true
					toks = append(toks, tk)
				}
			}
			sort.Slice(toks, func(i, j int) bool { return toks[i] < toks[j] })
			zones := []string{"z0", "z1", "z2", "z3", "znew", ""}
			plus[xid] = spec.Inst{ID: xid, Zone: zones[rng.IntN(len(zones))], Tokens: toks, State: rng.IntN(5), Heartbeat: rc.NowUnix}
			st := rk.NewStore()
			st.RecordGets = false
			st.Put("harness", rk.Key, rk.Desc(plus))
			r, stop, err := rk.StartRing(cfg, st.Client("ring"), rk.Key)
			if err != nil {
				run.Inconclusive("ring start: " + err.Error())
				return
			}
			metaRing = r
			defer stop()
		}
		T = T.Add(time.Duration(rc.OffsetMs) * time.Millisecond)
		time.Sleep(time.Until(T))
		synctest.Wait()
		if !time.Now().Equal(T) {
			run.Inconclusive("virtual clock not at planned instant")
			return
		}
		ops := builtinOps()
		ops = append(ops, customOp(rng))
		keys := probeKeys(rng, rc.Insts, extraKeys)
		rsig := rc.sig()
		mx := hasMaxTok(rc.Insts)
		sampled := false
		// the same lookups through a derived ring that holds every instance (a shuffle shard at least as large as the
		// ring): derived rings rebuild their token circle from per-zone lists, the answers must not change
		subs := make([]ring.ReadRing, len(rings))
		for ri, l := range rings {
			if p, _ := vt.Recover(func() { subs[ri] = l.r.ShuffleShard("everything", 2*len(rc.Insts)+8) }); p != nil {
				subs[ri] = nil
			}
		}
		for _, key := range keys {
			for _, op := range ops {
				walked := spec.Walk(rc.Insts, key, rc.RF, rc.ZoneAware, op.spec)
				healthy, maxErr, fails := spec.QuorumAt(rc.Insts, walked, rc.RF, op.spec, rc.NowUnix*1000+rc.OffsetMs, rc.TimeoutS*1000)
				wantIDs := rk.Sorted(healthy)
				for ri, l := range rings {
					var rs ring.ReplicationSet
					var err error
					mode := (int(key) + ri + len(op.spec.Name)) % 6
					if mode == 4 && subs[ri] == nil {
						mode = 0
					}
					p, stack := vt.Recover(func() {
						switch mode {
						case 4:
							rs, err = subs[ri].Get(key, op.real, nil, nil, nil)
						case 0:
							rs, err = l.r.Get(key, op.real, nil, nil, nil)
						case 1:
							bd, bh, bz := ring.MakeBuffersForGet()
							rs, err = l.r.Get(key, op.real, bd, bh, bz)
						case 2:
							rs, err = l.r.Get(key, op.real, make([]ring.InstanceDesc, 0, 1), make([]string, 0, 1), nil)
						case 5:
							// the options entry point with the replication factor left at its default (no option, or an
							// explicit zero): the configured replication factor applies to the walk and to the quorum
							if key%2 == 0 {
								rs, err = l.r.GetWithOptions(key, op.real)
							} else {
								rs, err = l.r.GetWithOptions(key, op.real, ring.WithReplicationFactor(0), ring.WithBuffers(ring.MakeBuffersForGet()))
							}
						default:
							rs, err = l.r.GetWithOptions(key, op.real, ring.WithReplicationFactor(rc.RF), ring.WithBuffers(make([]ring.InstanceDesc, 0, 2), make([]string, 0, 2), nil))
						}
					})
					nontrivial := len(walked) != rc.RF || len(healthy) != len(walked) || rc.ZoneAware
					run.Eval(fmt.Sprintf("%s|%d|%s", rsig, key, op.spec.Name), nontrivial)
					kind := ""
					switch {
					case p != nil:
						kind = "panic"
					case err != nil && strings.Contains(err.Error(), ring.ErrInconsistentTokensInfo.Error()):
						kind = "inconsistent-tokens"
					case (err != nil) != fails:
						kind = "error-presence"
					case err == nil && !rk.EqStrings(rk.IDs(rs), wantIDs):
						kind = "ids"
					case err == nil && rs.MaxErrors != maxErr:
						kind = "maxerrors"
					}
					if kind != "" {
						sig := "get-mismatch/" + kind
						if mx {
							sig += "/ring-has-token-2^32-1"
						}
						errS := ""
						if err != nil {
							errS = err.Error()
						}
						run.Violation(c, sig, fmt.Sprintf("Ring.Get(key=%d, op=%s) differs from the walk specification (%s)", key, op.spec.Name, kind), map[string]any{
							"ring": rc, "key": key, "op": op.spec, "call_mode": mode, "ring_copy": ri,
							"want_walked": walked, "want_healthy": wantIDs, "want_max_errors": maxErr, "want_error": fails,
							"got_ids": rk.IDs(rs), "got_max_errors": rs.MaxErrors, "got_error": errS, "panic": fmt.Sprint(p), "stack": stack,
						})
					}
					if !sampled && nontrivial && run.WantSample() {
						sampled = true
						run.Sample(map[string]any{"ring": rc, "key": key, "op": op.spec.Name, "walked": walked, "healthy": wantIDs, "max_errors": maxErr, "fails": fails})
					}
				}
				if (int(key)+len(op.spec.Name))%3 == 0 {
					rs, err := lenient.Get(key, op.real, nil, nil, nil)
					wantIDs := rk.Sorted(spec.HealthyAt(rc.Insts, walked, op.spec, rc.NowUnix*1000+rc.OffsetMs, rc.TimeoutS*1000))
					kind := ""
					switch {
					case (err != nil) != (len(wantIDs) == 0):
						kind = "error-presence"
					case err == nil && !rk.EqStrings(rk.IDs(rs), wantIDs):
						kind = "ids"
					case err == nil && rs.MaxErrors != len(wantIDs)-1:
						kind = "maxerrors"
					}
					run.Count("lookups_with_ignore_unhealthy_strategy", 1)
					if kind != "" {
						run.Violation(c, "get-mismatch/ignore-unhealthy-strategy/"+kind, fmt.Sprintf("Ring.Get(key=%d, op=%s) with the ignore-unhealthy strategy differs from the healthy members of the walked set (%s)", key, op.spec.Name, kind), map[string]any{
							"ring": rc, "key": key, "op": op.spec, "want_walked": walked, "want_healthy": wantIDs, "got_ids": rk.IDs(rs), "got_max_errors": rs.MaxErrors, "got_error": fmt.Sprint(err)})
					}
				}
				// metamorphic clause, on real answers only
				if metaRing != nil {
					a, errA := rings[0].r.Get(key, op.real, nil, nil, nil)
					b, errB := metaRing.Get(key, op.real, nil, nil, nil)
					// X is a replica of the key iff it is in the walked set of R+X; the
					// walked set is not observable through Get (unhealthy members are
					// filtered), so use the specification's walk only to decide whether the
					// clause applies, and real answers for the comparison.
					plus := map[string]spec.Inst{}
					for k, v := range rc.Insts {
						plus[k] = v
					}
					xi, _ := metaRing.GetInstance(xid)
					plus[xid] = spec.Inst{ID: xid, Zone: xi.Zone, Tokens: xi.Tokens, State: int(xi.State), Heartbeat: xi.Timestamp}
					wx := spec.Walk(plus, key, rc.RF, rc.ZoneAware, op.spec)
					xIsReplica := false
					for _, id := range wx {
						if id == xid {
							xIsReplica = true
						}
					}
					run.Count("meta_pairs", 1)
					if !xIsReplica {
						run.Count("meta_pairs_applicable", 1)
						// the majority is computed over max(RF, walked); both unchanged.
						if (errA != nil) != (errB != nil) || (errA == nil && (!rk.EqStrings(rk.IDs(a), rk.IDs(b)) || a.MaxErrors != b.MaxErrors)) {
							run.Violation(c, "metamorphic/add-instance-changed-unrelated-key", fmt.Sprintf("adding instance %s changed the replica set of key %d although it is not a replica of it", xid, key), map[string]any{
								"ring": rc, "added": plus[xid], "key": key, "op": op.spec.Name, "before": rk.IDs(a), "after": rk.IDs(b), "before_max": a.MaxErrors, "after_max": b.MaxErrors,
								"err_before": fmt.Sprint(errA), "err_after": fmt.Sprint(errB),
							})
						}
					}
				}
			}
		}
	})
}

// exhaustive small universe: every assignment of the 6-token alphabet to
// {nobody, a, b, c} with at most 2 tokens per instance.
func smallAssignments() [][]int {
	var out [][]int
	n := len(smallAlphabet)
	cur := make([]int, n)
	var rec func(i int, cnt [4]int)
	rec = func(i int, cnt [4]int) {
		if i == n {
			out = append(out, append([]int(nil), cur...))
			return
		}
		for o := 0; o < 4; o++ {
			if o > 0 && cnt[o] >= 2 {
				continue
			}
			cur[i] = o
			c2 := cnt
			c2[o]++
			rec(i+1, c2)
		}
	}
	rec(0, [4]int{})
	return out
}

func TestC01(t *testing.T) {
	run := vt.NewRun("C01", "exploration")
	run.SetRule("case = (ring descriptor, key, operation) evaluated through a real ring.Ring client fed via the KV store inside a synctest bubble and compared with the walk/majority specification; non-trivial = zone-awareness on, or the walked set size differs from RF (extension/shortage), or some walked member is unhealthy; distinct by hash of (descriptor, key, op). Plus metamorphic +1-instance pairs and MergeTokens permutation cases.")
	run.Assume("tokens are disjoint between instances (collisions are C05)")
	run.Assume("the specification walk in harness/spec/walk.go is the reading of the statement")
	now := bubbleStart.Add(planOffset).Unix()

	// --- MergeTokens / GetTokens over all list orders
	run.ForEach("merge", vt.N(3000, 60000), func(c vt.CaseID, rng *rand.Rand, s *vt.Slot) {
		nl := 1 + rng.IntN(5)
		perm := rng.Perm(len(alphabet))
		lists := make([][]uint32, nl)
		k := rng.IntN(len(alphabet) + 1)
		for i := 0; i < k; i++ {
			l := rng.IntN(nl)
			lists[l] = append(lists[l], alphabet[perm[i]])
		}
		if rng.IntN(3) == 0 {
			for i := 0; i < 5; i++ {
				l := rng.IntN(nl)
				lists[l] = append(lists[l], rng.Uint32())
			}
		}
		var want []uint32
		for i := range lists {
			sort.Slice(lists[i], func(a, b int) bool { return lists[i][a] < lists[i][b] })
			want = append(want, lists[i]...)
		}
		sort.Slice(want, func(a, b int) bool { return want[a] < want[b] })
		// all permutations of the lists
		idx := make([]int, nl)
		for i := range idx {
			idx[i] = i
		}
		var permute func(k int)
		permute = func(k int) {
			if k == nl {
				in := make([][]uint32, nl)
				for i, j := range idx {
					in[i] = append([]uint32(nil), lists[j]...)
				}
				var got []uint32
				p, stack := vt.Recover(func() { got = ring.MergeTokens(in) })
				run.Eval(fmt.Sprintf("merge|%v", in), nl > 1 && len(want) > 0)
				ok := p == nil && len(got) == len(want)
				if ok {
					for i := range got {
						if got[i] != want[i] {
							ok = false
						}
					}
				}
				if !ok {
					sig := "merge-tokens-not-sorted-union"
					if len(want) > 0 && want[len(want)-1] == maxTok {
						sig += "/has-token-2^32-1"
					}
					run.Violation(c, sig, "ring.MergeTokens does not return the sorted union of its lists", map[string]any{"lists": in, "got": got, "want": want, "panic": fmt.Sprint(p), "stack": stack})
				}
				return
			}
			for i := k; i < nl; i++ {
				idx[k], idx[i] = idx[i], idx[k]
				permute(k + 1)
				idx[k], idx[i] = idx[i], idx[k]
			}
		}
		permute(0)
		// Desc.GetTokens on the same lists
		d := ring.NewDesc()
		for i, l := range lists {
			d.Ingesters[fmt.Sprintf("i%d", i)] = ring.InstanceDesc{Tokens: append([]uint32(nil), l...)}
		}
		for rep := 0; rep < 4; rep++ {
			got := d.GetTokens()
			ok := len(got) == len(want)
			if ok {
				for i := range got {
					if got[i] != want[i] {
						ok = false
					}
				}
			}
			if !ok {
				sig := "desc-gettokens-not-sorted-union"
				if len(want) > 0 && want[len(want)-1] == maxTok {
					sig += "/has-token-2^32-1"
				}
				run.Violation(c, sig, "Desc.GetTokens does not return the sorted union of the instances' tokens", map[string]any{"lists": lists, "got": got, "want": want})
			}
		}
	})

	// --- exhaustive small universe
	assigns := smallAssignments()
	nSmall := len(assigns) * 3 * 2
	stride := 1
	if !vt.Thorough() {
		stride = 4 // quick: every 4th (rotating with the seed), thorough: all
	}
	run.SetExtra("small_universe_cases", nSmall)
	run.ForEachT(t, "small", nSmall/stride, func(t *testing.T, c vt.CaseID, rng *rand.Rand, s *vt.Slot) {
		idx := int(c.Idx)*stride + int(uint64(c.Seed)%uint64(stride))
		if _, ok := vt.ReplayCase(); ok {
			idx = int(c.Idx)*stride + int(uint64(c.Seed)%uint64(stride))
		}
		a := assigns[idx%len(assigns)]
		rest := idx / len(assigns)
		rf := 1 + rest%3
		za := (rest/3)%2 == 1
		insts := map[string]spec.Inst{}
		names := []string{"", "a", "b", "c"}
		for ti, o := range a {
			if o == 0 {
				continue
			}
			in := insts[names[o]]
			in.ID = names[o]
			in.Tokens = append(in.Tokens, smallAlphabet[ti])
			insts[names[o]] = in
		}
		// instances without tokens
		if rng.IntN(3) == 0 {
			insts["d"] = spec.Inst{ID: "d"}
		}
		timeoutS := int64(60)
		decorate(rng, insts, zoneSet(rng, za), timeoutS, now, rng.IntN(2) == 0)
		rc := ringCase{Insts: insts, RF: rf, ZoneAware: za, TimeoutS: timeoutS, NowUnix: now, OffsetMs: []int64{0, 0, 500, 999, 1}[rng.IntN(5)]}
		s.Enter(c, "crash/small")
		nr := 1
		if hasMaxTok(insts) {
			nr = 4
		}
		runRingCase(t, run, c, rng, rc, nr, 0, false)
		s.Leave()
	})

	// --- random larger rings, with the metamorphic partner
	run.ForEachT(t, "rand", vt.N(2500, 120000), func(t *testing.T, c vt.CaseID, rng *rand.Rand, s *vt.Slot) {
		ni := rng.IntN(9)
		za := rng.IntN(2) == 0
		rf := 1 + rng.IntN(5)
		insts := map[string]spec.Inst{}
		used := map[uint32]bool{}
		for i := 0; i < ni; i++ {
			id := fmt.Sprintf("i%d", i)
			nt := rng.IntN(5)
			var toks []uint32
			for len(toks) < nt {
				var tk uint32
				if rng.IntN(3) != 0 {
					tk = alphabet[rng.IntN(len(alphabet))]
				} else {
					tk = rng.Uint32()
				}
				if used[tk] {
					if rng.IntN(4) == 0 {
						break
					}
					continue
				}
				used[tk] = true
				toks = append(toks, tk)
			}
			sort.Slice(toks, func(a, b int) bool { return toks[a] < toks[b] })
			insts[id] = spec.Inst{ID: id, Tokens: toks}
		}
		timeoutS := int64(1 + rng.IntN(120))
		decorate(rng, insts, zoneSet(rng, za), timeoutS, now, rng.IntN(2) == 0)
		rc := ringCase{Insts: insts, RF: rf, ZoneAware: za, TimeoutS: timeoutS, NowUnix: now, OffsetMs: []int64{0, 0, 500, 999, 1}[rng.IntN(5)]}
		s.Enter(c, "crash/rand")
		nr := 1
		if hasMaxTok(insts) {
			nr = 3
		}
		runRingCase(t, run, c, rng, rc, nr, 4, true)
		s.Leave()
	})

	if run.Counter("meta_pairs_applicable") == 0 && vt.GenEnabled("rand") {
		if _, ok := vt.ReplayCase(); !ok {
			run.Inconclusive("metamorphic clause never applicable")
		}
	}
	run.Finish(t)
}
