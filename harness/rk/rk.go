// Package rk ("ring kit"): helpers shared by the ring monitors — building
// descriptors from specification instances and running a real ring.Ring client
// on a store inside a synctest bubble.
package rk

import (
	"context"
	"fmt"
	"sort"
	"time"

	"github.com/go-kit/log"

	"github.com/grafana/dskit/kv"
	"github.com/grafana/dskit/ring"
	"github.com/grafana/dskit/services"

	"verifharness/recstore"
	"verifharness/spec"
)

const Key = "ring"

// Desc builds a ring descriptor from specification instances.
func Desc(insts map[string]spec.Inst) *ring.Desc {
	d := ring.NewDesc()
	for id, in := range insts {
		toks := append([]uint32(nil), in.Tokens...)
		d.Ingesters[id] = ring.InstanceDesc{
			Id: id, Addr: "addr-" + id, Zone: in.Zone, Tokens: toks,
			State: ring.InstanceState(in.State), Timestamp: in.Heartbeat,
		}
	}
	return d
}

// IDs returns the sorted instance ids of a replication set.
func IDs(rs ring.ReplicationSet) []string {
	out := make([]string, 0, len(rs.Instances))
	for _, i := range rs.Instances {
		out = append(out, i.Id)
	}
	sort.Strings(out)
	return out
}

func Sorted(s []string) []string {
	o := append([]string(nil), s...)
	sort.Strings(o)
	return o
}

func EqStrings(a, b []string) bool {
	if len(a) != len(b) {
		return false
	}
	for i := range a {
		if a[i] != b[i] {
			return false
		}
	}
	return true
}

// NewStore returns a recording store using the ring codec.
func NewStore() *recstore.Store { return recstore.New(ring.GetCodec()) }

// StartRing starts a real ring client on the store. Must be called in a bubble
// (or with a real clock); the returned stop function terminates it.
func StartRing(cfg ring.Config, store kv.Client, key string) (*ring.Ring, func(), error) {
	return StartRingWithStrategy(cfg, store, key, ring.NewDefaultReplicationStrategy())
}

// StartRingWithStrategy is StartRing with a caller-supplied replication strategy (a callback boundary inside lookups).
func StartRingWithStrategy(cfg ring.Config, store kv.Client, key string, strategy ring.ReplicationStrategy) (*ring.Ring, func(), error) {
	r, err := ring.NewWithStoreClientAndStrategy(cfg, "verif", key, store, strategy, nil, log.NewNopLogger())
	if err != nil {
		return nil, nil, err
	}
	ctx := context.Background()
	if err := services.StartAndAwaitRunning(ctx, r); err != nil {
		return nil, nil, fmt.Errorf("ring start: %w", err)
	}
	stop := func() {
		_ = services.StopAndAwaitTerminated(ctx, r)
	}
	return r, stop, nil
}

func Cfg(rf int, zoneAware bool, timeout time.Duration) ring.Config {
	return ring.Config{HeartbeatTimeout: timeout, ReplicationFactor: rf, ZoneAwarenessEnabled: zoneAware}
}
