package c10

import (
	"context"
	"errors"
	"fmt"
	"math/rand/v2"
	"sort"
	"sync"
	"sync/atomic"
	"testing"
	"testing/synctest"
	"time"

	"github.com/grafana/dskit/httpgrpc"
	"github.com/grafana/dskit/ring"

	"verifharness/rk"
	"verifharness/spec"
	"verifharness/vt"
)

// ---- shapes -----------------------------------------------------------------

type keySet struct {
	Instances []string `json:"instances"`
	MaxErrors int      `json:"max_errors"`
}

type shape struct {
	Kind      string   `json:"kind"` // fake | real-ring | partition-ring
	Keys      []uint32 `json:"keys"`
	Sets      []keySet `json:"sets"` // per key (as returned by the ring's Get)
	Instances int      `json:"instances_count"`
	RF        int      `json:"rf"`
	ring      ring.DoBatchRing
	stop      func()
}

type fakeRing struct {
	sets  map[uint32]ring.ReplicationSet
	count int
	rf    int
}

func (f *fakeRing) Get(key uint32, _ ring.Operation, buf []ring.InstanceDesc, _, _ []string) (ring.ReplicationSet, error) {
	rs, ok := f.sets[key]
	if !ok {
		return ring.ReplicationSet{}, errors.New("no such key")
	}
	out := append(buf[:0], rs.Instances...)
	return ring.ReplicationSet{Instances: out, MaxErrors: rs.MaxErrors}, nil
}
func (f *fakeRing) ReplicationFactor() int { return f.rf }
func (f *fakeRing) InstancesCount() int    { return f.count }

func fakeShape(rng *rand.Rand, maxCalls int) *shape {
	ni := 1 + rng.IntN(maxCalls)
	nk := rng.IntN(5)
	if rng.IntN(12) != 0 && nk == 0 {
		nk = 1
	}
	sh := &shape{Kind: "fake", Instances: ni, RF: 1 + rng.IntN(5)}
	fr := &fakeRing{sets: map[uint32]ring.ReplicationSet{}, count: ni, rf: sh.RF}
	for k := 0; k < nk; k++ {
		key := uint32(k*1000 + rng.IntN(1000))
		n := 1 + rng.IntN(ni)
		perm := rng.Perm(ni)[:n]
		sort.Ints(perm)
		var ks keySet
		var rs ring.ReplicationSet
		for _, i := range perm {
			id := fmt.Sprintf("i%d", i)
			ks.Instances = append(ks.Instances, id)
			rs.Instances = append(rs.Instances, ring.InstanceDesc{Id: id, Addr: "addr-" + id})
		}
		// the tolerance the default strategy would give, or any other legal one
		ks.MaxErrors = n - (n/2 + 1)
		if rng.IntN(3) == 0 {
			ks.MaxErrors = rng.IntN(n)
		}
		rs.MaxErrors = ks.MaxErrors
		fr.sets[key] = rs
		sh.Keys = append(sh.Keys, key)
		sh.Sets = append(sh.Sets, ks)
	}
	sh.ring = fr
	return sh
}

// realShape must be called inside a bubble.
func realShape(rng *rand.Rand) *shape {
	ni := 1 + rng.IntN(6)
	rf := 1 + rng.IntN(5)
	za := rng.IntN(3) == 0
	insts := map[string]spec.Inst{}
	now := time.Now().Unix()
	used := map[uint32]bool{}
	for i := 0; i < ni; i++ {
		id := fmt.Sprintf("i%d", i)
		var toks []uint32
		for len(toks) < 2 {
			t := rng.Uint32()
			if !used[t] {
				used[t] = true
				toks = append(toks, t)
			}
		}
		sort.Slice(toks, func(a, b int) bool { return toks[a] < toks[b] })
		st := spec.ACTIVE
		if rng.IntN(5) == 0 {
			st = spec.JOINING // extends the write set
		}
		insts[id] = spec.Inst{ID: id, Zone: fmt.Sprintf("z%d", i%3), Tokens: toks, State: st, Heartbeat: now}
	}
	store := rk.NewStore()
	store.RecordGets = false
	store.Put("harness", rk.Key, rk.Desc(insts))
	r, stop, err := rk.StartRing(rk.Cfg(rf, za, time.Hour), store.Client("ring"), rk.Key)
	if err != nil {
		return nil
	}
	sh := &shape{Kind: "real-ring", Instances: r.InstancesCount(), RF: rf, ring: r, stop: stop}
	nk := 1 + rng.IntN(4)
	for k := 0; k < nk; k++ {
		key := rng.Uint32()
		rs, err := r.Get(key, ring.Write, nil, nil, nil)
		if err != nil {
			continue // DoBatch would fail up-front; covered by the "get-fails" generator
		}
		sh.Keys = append(sh.Keys, key)
		sh.Sets = append(sh.Sets, keySet{Instances: rk.IDs(rs), MaxErrors: rs.MaxErrors})
	}
	return sh
}

func partitionShape(rng *rand.Rand) *shape {
	d := ring.NewPartitionRingDesc()
	np := 1 + rng.IntN(4)
	for p := 0; p < np; p++ {
		st := ring.PartitionActive
		if p > 0 && rng.IntN(4) == 0 {
			st = ring.PartitionInactive
		}
		d.Partitions[int32(p)] = ring.PartitionDesc{Id: int32(p), Tokens: []uint32{uint32(p*1000 + 5), uint32(p*1000 + 500000)}, State: st, StateTimestamp: 1}
	}
	pr, err := ring.NewPartitionRing(*d)
	if err != nil {
		return nil
	}
	br := ring.NewActivePartitionBatchRing(pr)
	sh := &shape{Kind: "partition-ring", Instances: br.InstancesCount(), RF: br.ReplicationFactor(), ring: br}
	for k := 0; k < 1+rng.IntN(4); k++ {
		key := uint32(rng.IntN(4000))
		rs, err := br.Get(key, ring.Write, nil, nil, nil)
		if err != nil {
			continue
		}
		sh.Keys = append(sh.Keys, key)
		sh.Sets = append(sh.Sets, keySet{Instances: rk.IDs(rs), MaxErrors: rs.MaxErrors})
	}
	return sh
}

// calls returns the expected replica calls: instance id -> indexes of its keys.
func (sh *shape) calls() (ids []string, idx map[string][]int) {
	idx = map[string][]int{}
	for k, ks := range sh.Sets {
		for _, id := range ks.Instances {
			idx[id] = append(idx[id], k)
		}
	}
	for id := range idx {
		ids = append(ids, id)
	}
	sort.Strings(ids)
	return
}

// ---- specification ----------------------------------------------------------

const (
	oOK = iota
	oClient
	oServer
)

type decision int

const (
	undecided decision = iota // must not have returned
	mayFail                   // some key can no longer reach quorum, but no family exceeded and not all its replicas answered
	mustFail
	mustSucceed
)

func decide(sh *shape, answered map[string]int) decision {
	allOK := true
	doomed := false
	for _, ks := range sh.Sets {
		n := len(ks.Instances)
		succ, cl, sv, ans := 0, 0, 0, 0
		for _, id := range ks.Instances {
			o, ok := answered[id]
			if !ok {
				continue
			}
			ans++
			switch o {
			case oOK:
				succ++
			case oClient:
				cl++
			case oServer:
				sv++
			}
		}
		min := n - ks.MaxErrors
		if succ < min {
			allOK = false
		}
		if cl > ks.MaxErrors || sv > ks.MaxErrors || (ans == n && succ < min) {
			return mustFail
		}
		if cl+sv > ks.MaxErrors {
			doomed = true
		}
	}
	if allOK {
		return mustSucceed
	}
	if doomed {
		return mayFail
	}
	return undecided
}

// ---- one stepped execution ----------------------------------------------------

type stepCase struct {
	Shape      *shape         `json:"shape"`
	Outcomes   map[string]int `json:"outcomes"` // 0 ok 1 client error 2 server error
	Order      []string       `json:"completion_order"`
	CancelAt   int            `json:"cancel_before_release"` // -1 never
	Spawner    string         `json:"spawner"`
	CustomIsCl bool           `json:"custom_is_client_error"`
	// DeprecatedEntry: the call goes through ring.DoBatch (no options): client-class errors are then those carrying an
	// HTTP 4xx status (httpgrpc), everything else - 5xx statuses and plain errors - is server-class
	DeprecatedEntry bool `json:"deprecated_DoBatch_with_default_4xx_classifier"`
}

type clientErr struct{ id string }

func (e clientErr) Error() string { return "client-class error from " + e.id }

type serverErr struct{ id string }

func (e serverErr) Error() string { return "server-class error from " + e.id }

var errCancelCause = errors.New("caller gave up")

func runStep(t *testing.T, run *vt.Run, c vt.CaseID, sc stepCase) {
	sh := sc.Shape
	ids, idx := sh.calls()
	gates := map[string]chan struct{}{}
	for _, id := range ids {
		gates[id] = make(chan struct{})
	}
	var seq atomic.Int64
	var mu sync.Mutex
	type callRec struct {
		id      string
		indexes []int
		start   int64
		end     int64
	}
	callsMade := map[string][]*callRec{}
	var cleanupSeqs []int64
	var spawned atomic.Int64
	viol := func(sig, what string, extra map[string]any) {
		d := map[string]any{"case": sc}
		for k, v := range extra {
			d[k] = v
		}
		run.Violation(c, sig, what, d)
	}
	ctx, cancel := context.WithCancelCause(context.Background())
	defer cancel(nil)
	opts := ring.DoBatchOptions{
		Cleanup: func() {
			mu.Lock()
			cleanupSeqs = append(cleanupSeqs, seq.Add(1))
			mu.Unlock()
		},
		IsClientError: func(err error) bool { var ce clientErr; return errors.As(err, &ce) },
	}
	var pool chan func()
	startGate := make(chan struct{})
	opened := false
	switch sc.Spawner {
	case "counting":
		opts.Go = func(f func()) { spawned.Add(1); go f() }
	case "pool":
		pool = make(chan func(), 64)
		for w := 0; w < 8; w++ { // enough workers: parked callbacks occupy one each
			go func() {
				for f := range pool {
					f()
				}
			}()
		}
		opts.Go = func(f func()) { spawned.Add(1); pool <- f }
	case "held":
		// a spawner that queues work: nothing handed to it starts before the harness opens the gate, which it
		// does after the cancellation when the case cancels before the first release (the caller's context ends
		// between hand-over and start), otherwise right away
		opts.Go = func(f func()) {
			spawned.Add(1)
			go func() {
				<-startGate
				f()
			}()
		}
	}
	open := func() {
		if !opened {
			opened = true
			close(startGate)
			synctest.Wait()
		}
	}
	// one error value per replica (identity is compared): harness error types for the custom classifier, HTTP-status
	// errors and plain errors for the default one
	errTab := map[string]error{}
	var errMu sync.Mutex
	errOf := func(id string, outcome int) error {
		if outcome == oOK {
			return nil
		}
		errMu.Lock()
		defer errMu.Unlock()
		if e, ok := errTab[id]; ok {
			return e
		}
		var e error
		switch {
		case !sc.DeprecatedEntry && outcome == oClient:
			e = clientErr{id}
		case !sc.DeprecatedEntry:
			e = serverErr{id}
		case outcome == oClient:
			e = httpgrpc.Errorf([]int{400, 404, 429, 499}[len(errTab)%4], "client-class error from %s", id)
		case len(errTab)%3 == 0:
			e = fmt.Errorf("plain error from %s", id)
		default:
			e = httpgrpc.Errorf([]int{500, 503, 599}[len(errTab)%3], "server-class error from %s", id)
		}
		errTab[id] = e
		return e
	}
	callback := func(d ring.InstanceDesc, indexes []int) error {
		rec := &callRec{id: d.Id, indexes: append([]int(nil), indexes...), start: seq.Add(1)}
		mu.Lock()
		callsMade[d.Id] = append(callsMade[d.Id], rec)
		mu.Unlock()
		g, ok := gates[d.Id]
		if ok {
			<-g
		}
		err := errOf(d.Id, sc.Outcomes[d.Id])
		mu.Lock()
		rec.end = seq.Add(1)
		mu.Unlock()
		return err
	}
	type ret struct {
		err error
		seq int64
	}
	retCh := make(chan ret, 2)
	go func() {
		var err error
		if sc.DeprecatedEntry {
			err = ring.DoBatch(ctx, ring.Write, sh.ring, sh.Keys, callback, opts.Cleanup)
		} else {
			err = ring.DoBatchWithOptions(ctx, ring.Write, sh.ring, sh.Keys, callback, opts)
		}
		retCh <- ret{err, seq.Add(1)}
	}()
	synctest.Wait()
	var returned *ret
	poll := func() {
		select {
		case r := <-retCh:
			if returned != nil {
				viol("returned-twice", "DoBatch returned twice", nil)
			}
			returned = &r
		default:
		}
	}
	if sc.Spawner == "held" && sc.CancelAt != 0 {
		open()
	}
	poll()
	// every selected replica is called once with exactly its indexes
	checkCalls := func(final bool) {
		mu.Lock()
		defer mu.Unlock()
		for _, id := range ids {
			cs := callsMade[id]
			if len(cs) != 1 {
				if len(cs) > 1 || final {
					viol("replica-call-count", fmt.Sprintf("replica %s called %d times", id, len(cs)), nil)
				}
				continue
			}
			got := append([]int(nil), cs[0].indexes...)
			sort.Ints(got)
			if fmt.Sprint(got) != fmt.Sprint(idx[id]) {
				viol("replica-wrong-indexes", fmt.Sprintf("replica %s called with indexes %v, serves %v", id, cs[0].indexes, idx[id]), nil)
			}
		}
		for id := range callsMade {
			if _, ok := idx[id]; !ok {
				viol("unselected-replica-called", "a replica that serves none of the keys was called: "+id, nil)
			}
		}
	}
	if len(sh.Keys) > 0 && returned == nil && (sc.Spawner != "held" || opened) {
		checkCalls(true)
	}
	answered := map[string]int{}
	var errorsSoFar []error
	cancelled := false
	judge := func(stepDesc string) {
		d := decide(sh, answered)
		if cancelled {
			if returned == nil {
				viol("blocked-after-context-end", "DoBatch still blocked after the caller's context ended ("+stepDesc+")", nil)
			}
			return
		}
		switch d {
		case undecided:
			if returned != nil {
				sig := "returned-before-decision"
				if returned.err == nil {
					sig = "success-without-quorum"
				}
				viol(sig, fmt.Sprintf("DoBatch returned (%v) although no key is decided yet (%s)", returned.err, stepDesc), map[string]any{"answered": answered})
			}
		case mustSucceed:
			if returned == nil {
				sig := "blocked-after-quorum-on-every-key"
				if len(sh.Keys) == 0 {
					sig = "empty-key-list-blocks"
				}
				viol(sig, "DoBatch has not returned although every key has its quorum ("+stepDesc+")", map[string]any{"answered": answered})
			} else if returned.err != nil {
				viol("error-despite-quorum", fmt.Sprintf("DoBatch returned %v although every key has its quorum", returned.err), map[string]any{"answered": answered})
			}
		case mustFail:
			if returned == nil {
				viol("blocked-after-key-lost-quorum", "DoBatch has not returned although a key can no longer reach quorum by the rule ("+stepDesc+")", map[string]any{"answered": answered})
			} else if returned.err == nil {
				viol("success-without-quorum", "DoBatch returned nil although some key ended without quorum", map[string]any{"answered": answered})
			}
		case mayFail:
			if returned != nil && returned.err == nil {
				viol("success-without-quorum", "DoBatch returned nil although some key cannot reach quorum", map[string]any{"answered": answered})
			}
		}
		if returned != nil && returned.err != nil && !cancelled {
			ok := false
			for _, e := range errorsSoFar {
				if returned.err == e {
					ok = true
				}
			}
			if !ok {
				viol("error-not-from-a-replica", fmt.Sprintf("DoBatch returned error %q which no replica has returned so far", returned.err), map[string]any{"answered": answered})
			}
		}
	}
	judge("before any completion")
	sigParts := []string{}
	for step, id := range sc.Order {
		if sc.CancelAt == step && !cancelled {
			before := returned
			cancel(errCancelCause)
			synctest.Wait()
			poll()
			if returned == nil {
				viol("blocked-after-context-end", "DoBatch still blocked after the caller's context ended", nil)
			} else if before == nil && returned.err != errCancelCause {
				// nothing else was pending at the last quiescent point, so the only reason to return is the context
				viol("context-cause-not-returned", fmt.Sprintf("after cancellation DoBatch returned %v instead of the context's cause", returned.err), nil)
			}
			cancelled = true
		}
		if sc.Spawner == "held" {
			open()
		}
		close(gates[id])
		synctest.Wait()
		answered[id] = sc.Outcomes[id]
		if e := errOf(id, sc.Outcomes[id]); e != nil {
			errorsSoFar = append(errorsSoFar, e)
		}
		wasReturned := returned != nil
		poll()
		if !wasReturned && returned != nil {
			sigParts = append(sigParts, fmt.Sprintf("ret@%d", step))
		}
		judge(fmt.Sprintf("after completion %d (%s)", step, id))
	}
	// all replica calls have returned: it must have returned, cleanup exactly once and last
	if sc.Spawner == "held" {
		open()
	}
	synctest.Wait()
	poll()
	if returned == nil {
		if len(sh.Keys) == 0 {
			viol("empty-key-list-blocks", "DoBatch with an empty key list has not returned although nothing is pending", nil)
		} else {
			viol("blocked-after-all-replicas-answered", "DoBatch has not returned although all replica calls returned", map[string]any{"answered": answered})
		}
		cancel(errCancelCause) // let the goroutine go
		synctest.Wait()
		poll()
	}
	checkCalls(true)
	mu.Lock()
	if len(cleanupSeqs) != 1 {
		viol("cleanup-count", fmt.Sprintf("cleanup ran %d times", len(cleanupSeqs)), nil)
	} else {
		for _, cs := range callsMade {
			for _, r := range cs {
				if r.end == 0 || r.end > cleanupSeqs[0] {
					viol("cleanup-before-replica-calls-finished", "cleanup ran before replica call "+r.id+" finished", nil)
				}
			}
		}
	}
	mu.Unlock()
	if sc.Spawner != "" && len(sh.Keys) > 0 {
		if int(spawned.Load()) != len(ids)+1 {
			viol("custom-spawner-bypassed", fmt.Sprintf("custom Go spawner used %d times for %d replica calls + cleanup", spawned.Load(), len(ids)), nil)
		}
	}
	if pool != nil {
		close(pool)
	}
	// second return?
	synctest.Wait()
	poll()
	nontrivial := len(ids) > 1
	h := vt.Hash64(fmt.Sprintf("%v|%v|%v|%d|%s", sh.Sets, sc.Outcomes, sc.Order, sc.CancelAt, sc.Spawner))
	run.EvalH(h, nontrivial)
	run.Distinct("sig|" + fmt.Sprint(sigParts, sc.Order))
	if nontrivial && run.WantSample() {
		run.Sample(map[string]any{"case": sc, "return_points": sigParts, "returned_error": fmt.Sprint(returned != nil && returned.err != nil)})
	}
}

// ---- spawners that run one function at a time ---------------------------------------------------
//
// DoBatchOptions.Go may be any spawner: one that runs the function inline, a single worker draining a queue, a
// spawner that blocks while another function is still running (a semaphore of one). With those the replica
// functions run strictly one after the other in hand-over order and the cleanup waiter must not occupy the only slot
// before them. Callbacks are not parked here (a parked callback would park the whole spawner); each takes a few
// virtual milliseconds. Judged at the end: returned exactly once, nil iff every key reached its quorum, the error one
// a replica returned, every selected replica called once with its indexes, cleanup once and after the last call.
func runSerial(t *testing.T, run *vt.Run, c vt.CaseID, sc stepCase) {
	sh := sc.Shape
	ids, idx := sh.calls()
	var seq atomic.Int64
	var mu sync.Mutex
	type callRec struct {
		indexes    []int
		start, end int64
	}
	callsMade := map[string][]*callRec{}
	var cleanupSeqs []int64
	var spawned atomic.Int64
	viol := func(sig, what string, extra map[string]any) {
		d := map[string]any{"case": sc}
		for k, v := range extra {
			d[k] = v
		}
		run.Violation(c, "serial-spawner/"+sig, what, d)
	}
	ctx, cancel := context.WithCancelCause(context.Background())
	defer cancel(nil)
	opts := ring.DoBatchOptions{
		Cleanup: func() {
			mu.Lock()
			cleanupSeqs = append(cleanupSeqs, seq.Add(1))
			mu.Unlock()
		},
		IsClientError: func(err error) bool { var ce clientErr; return errors.As(err, &ce) },
	}
	var queue chan func()
	switch sc.Spawner {
	case "inline":
		opts.Go = func(f func()) { spawned.Add(1); f() }
	case "single-worker":
		queue = make(chan func(), 256)
		go func() {
			for f := range queue {
				f()
			}
		}()
		opts.Go = func(f func()) { spawned.Add(1); queue <- f }
	case "semaphore-1":
		sem := make(chan struct{}, 1)
		opts.Go = func(f func()) {
			spawned.Add(1)
			sem <- struct{}{}
			go func() {
				defer func() { <-sem }()
				f()
			}()
		}
	}
	callback := func(d ring.InstanceDesc, indexes []int) error {
		rec := &callRec{indexes: append([]int(nil), indexes...), start: seq.Add(1)}
		mu.Lock()
		callsMade[d.Id] = append(callsMade[d.Id], rec)
		mu.Unlock()
		time.Sleep(time.Duration(1+len(d.Id)%3) * time.Millisecond)
		var err error
		switch sc.Outcomes[d.Id] {
		case oClient:
			err = clientErr{d.Id}
		case oServer:
			err = serverErr{d.Id}
		}
		mu.Lock()
		rec.end = seq.Add(1)
		mu.Unlock()
		return err
	}
	retCh := make(chan error, 2)
	go func() { retCh <- ring.DoBatchWithOptions(ctx, ring.Write, sh.ring, sh.Keys, callback, opts) }()
	time.Sleep(time.Minute)
	synctest.Wait()
	var returned []error
	poll := func() {
		for {
			select {
			case e := <-retCh:
				returned = append(returned, e)
				continue
			default:
			}
			return
		}
	}
	poll()
	answered := map[string]int{}
	for _, id := range ids {
		answered[id] = sc.Outcomes[id]
	}
	d := decide(sh, answered)
	if len(returned) == 0 {
		viol("never-returned", fmt.Sprintf("with the %s spawner DoBatch has not returned after a virtual minute although no callback blocks", sc.Spawner), map[string]any{"calls_made": len(callsMade)})
		cancel(errCancelCause)
		time.Sleep(time.Minute)
		synctest.Wait()
		poll()
	} else {
		err := returned[0]
		switch {
		case d == mustSucceed && err != nil:
			viol("error-despite-quorum", fmt.Sprintf("DoBatch returned %v although every key has its quorum", err), nil)
		case (d == mustFail || d == mayFail) && err == nil:
			viol("success-without-quorum", "DoBatch returned nil although some key ended without quorum", nil)
		}
		if err != nil {
			ok := false
			for _, id := range ids {
				if err == error(clientErr{id}) || err == error(serverErr{id}) {
					ok = sc.Outcomes[id] != oOK
				}
			}
			if !ok {
				viol("error-not-from-a-replica", fmt.Sprintf("DoBatch returned error %q which no replica returned", err), nil)
			}
		}
	}
	if len(returned) > 1 {
		viol("returned-twice", "DoBatch returned twice", nil)
	}
	mu.Lock()
	for _, id := range ids {
		cs := callsMade[id]
		if len(cs) != 1 {
			viol("replica-call-count", fmt.Sprintf("replica %s called %d times", id, len(cs)), nil)
			continue
		}
		got := append([]int(nil), cs[0].indexes...)
		sort.Ints(got)
		if fmt.Sprint(got) != fmt.Sprint(idx[id]) {
			viol("replica-wrong-indexes", fmt.Sprintf("replica %s called with indexes %v, serves %v", id, cs[0].indexes, idx[id]), nil)
		}
	}
	if len(cleanupSeqs) != 1 {
		viol("cleanup-count", fmt.Sprintf("cleanup ran %d times", len(cleanupSeqs)), nil)
	} else {
		for id, cs := range callsMade {
			for _, r := range cs {
				if r.end == 0 || r.end > cleanupSeqs[0] {
					viol("cleanup-before-replica-calls-finished", "cleanup ran before replica call "+id+" finished", nil)
				}
			}
		}
	}
	mu.Unlock()
	if len(sh.Keys) > 0 && int(spawned.Load()) != len(ids)+1 {
		viol("custom-spawner-bypassed", fmt.Sprintf("custom Go spawner used %d times for %d replica calls + cleanup", spawned.Load(), len(ids)), nil)
	}
	if queue != nil {
		close(queue)
	}
	run.EvalH(vt.Hash64(fmt.Sprintf("serial|%v|%v|%s", sh.Sets, sc.Outcomes, sc.Spawner)), len(ids) > 1)
	run.Count("serial_spawner_runs", 1)
}

func permutations(ids []string, f func([]string)) {
	p := append([]string(nil), ids...)
	var rec func(k int)
	rec = func(k int) {
		if k == len(p) {
			f(append([]string(nil), p...))
			return
		}
		for i := k; i < len(p); i++ {
			p[k], p[i] = p[i], p[k]
			rec(k + 1)
			p[k], p[i] = p[i], p[k]
		}
	}
	rec(0)
}

func TestC10(t *testing.T) {
	run := vt.NewRun("C10", "exploration")
	run.SetRule("case = (ring shape: keys with their replica sets and tolerances from a fake DoBatchRing, a real ring.Ring or the partition batch ring; outcome of each replica call in {ok, client-class error, server-class error}; completion order; optional cancellation point; spawner) executed by the real DoBatchWithOptions inside a synctest bubble with replica callbacks parked on gates and released one at a time, synctest.Wait() after each; after every release the monitor checks 'returned iff the specification has decided on this prefix' (nil vs error, error identity), then exactly-once return, call set/indexes, cleanup once and last. For shapes with <= 4 replica calls all 3^n outcome assignments x n! orders are run; larger shapes are sampled. non-trivial = more than one replica call; distinct by (shape, outcomes, order, cancel point).")

	run.ForEachT(t, "step", vt.N(400, 6000), func(t *testing.T, c vt.CaseID, rng *rand.Rand, s *vt.Slot) {
		s.Enter(c, "crash/step")
		defer s.Leave()
		kind := rng.IntN(10)
		runAll := func(mk func() *shape) {
			// the shape is rebuilt inside every bubble (real rings live in the bubble)
			var probe *shape
			synctest.Test(t, func(t *testing.T) {
				r2 := c.Rand()
				_ = r2
				probe = mk()
				if probe != nil && probe.stop != nil {
					probe.stop()
				}
			})
			if probe == nil {
				return
			}
			ids, _ := probe.calls()
			n := len(ids)
			type oo struct {
				out   map[string]int
				order []string
			}
			var list []oo
			if n <= 4 {
				total := 1
				for i := 0; i < n; i++ {
					total *= 3
				}
				for a := 0; a < total; a++ {
					out := map[string]int{}
					x := a
					for _, id := range ids {
						out[id] = x % 3
						x /= 3
					}
					permutations(ids, func(p []string) { list = append(list, oo{out, p}) })
				}
			} else {
				for k := 0; k < 150; k++ {
					out := map[string]int{}
					for _, id := range ids {
						out[id] = rng.IntN(3)
						if rng.IntN(2) == 0 {
							out[id] = oOK
						}
					}
					p := append([]string(nil), ids...)
					rng.Shuffle(len(p), func(i, j int) { p[i], p[j] = p[j], p[i] })
					list = append(list, oo{out, p})
				}
			}
			for _, e := range list {
				cancelAt := -1
				if rng.IntN(4) == 0 {
					cancelAt = rng.IntN(n + 1)
				}
				sp := []string{"", "", "counting", "pool", "held"}[rng.IntN(5)]
				if sp == "held" && rng.IntN(2) == 0 {
					cancelAt = 0
				}
				depr := rng.IntN(3) == 0
				synctest.Test(t, func(t *testing.T) {
					sh := mk()
					if sh == nil {
						return
					}
					if sh.stop != nil {
						defer sh.stop()
					}
					runStep(t, run, c, stepCase{Shape: sh, Outcomes: e.out, Order: e.order, CancelAt: cancelAt, Spawner: sp, DeprecatedEntry: sp == "" && depr})
				})
			}
		}
		switch {
		case kind < 6:
			seed := rng.Uint64()
			maxCalls := 2 + rng.IntN(4)
			runAll(func() *shape { return fakeShape(rand.New(rand.NewPCG(seed, 1)), maxCalls) })
		case kind < 9:
			seed := rng.Uint64()
			runAll(func() *shape { return realShape(rand.New(rand.NewPCG(seed, 2))) })
		default:
			seed := rng.Uint64()
			runAll(func() *shape { return partitionShape(rand.New(rand.NewPCG(seed, 3))) })
		}
	})

	// spawners that run one function at a time
	run.ForEachT(t, "serial-spawner", vt.N(600, 20000), func(t *testing.T, c vt.CaseID, rng *rand.Rand, s *vt.Slot) {
		s.Enter(c, "batch/serial-spawner")
		defer s.Leave()
		synctest.Test(t, func(t *testing.T) {
			var sh *shape
			switch k := rng.IntN(10); {
			case k < 6:
				sh = fakeShape(rng, 2+rng.IntN(5))
			case k < 9:
				sh = realShape(rng)
			default:
				sh = partitionShape(rng)
			}
			if sh == nil {
				return
			}
			if sh.stop != nil {
				defer sh.stop()
			}
			ids, _ := sh.calls()
			out := map[string]int{}
			for _, id := range ids {
				out[id] = rng.IntN(3)
				if rng.IntN(2) == 0 {
					out[id] = oOK
				}
			}
			sp := []string{"inline", "single-worker", "semaphore-1"}[rng.IntN(3)]
			runSerial(t, run, c, stepCase{Shape: sh, Outcomes: out, CancelAt: -1, Spawner: sp})
		})
	})

	// empty key list, with and without a context that ends
	run.ForEachT(t, "empty", 6, func(t *testing.T, c vt.CaseID, rng *rand.Rand, s *vt.Slot) {
		synctest.Test(t, func(t *testing.T) {
			sh := fakeShape(rng, 3)
			sh.Keys, sh.Sets = nil, nil
			fr := sh.ring.(*fakeRing)
			fr.sets = map[uint32]ring.ReplicationSet{}
			sp := []string{"", "counting", "pool"}[c.Idx%3]
			runStep(t, run, c, stepCase{Shape: sh, Outcomes: map[string]int{}, Order: nil, CancelAt: -1, Spawner: sp})
		})
	})

	// a ring lookup that fails up-front: cleanup still exactly once, error returned
	run.ForEachT(t, "get-fails", vt.N(50, 500), func(t *testing.T, c vt.CaseID, rng *rand.Rand, s *vt.Slot) {
		synctest.Test(t, func(t *testing.T) {
			sh := fakeShape(rng, 4)
			if len(sh.Keys) == 0 {
				return
			}
			keys := append(append([]uint32(nil), sh.Keys...), 4_000_000_000) // unknown key -> Get error
			var cleanups, calls atomic.Int64
			err := ring.DoBatchWithOptions(context.Background(), ring.Write, sh.ring, keys, func(ring.InstanceDesc, []int) error { calls.Add(1); return nil }, ring.DoBatchOptions{Cleanup: func() { cleanups.Add(1) }})
			synctest.Wait()
			run.EvalH(vt.Mix(uint64(c.Idx), 4242), true)
			if err == nil || cleanups.Load() != 1 || calls.Load() != 0 {
				run.Violation(c, "lookup-failure-path", "a failing ring lookup must return the error, call no replica and run cleanup once", map[string]any{"err": fmt.Sprint(err), "cleanups": cleanups.Load(), "replica_calls": calls.Load()})
			}
		})
	})
	run.Finish(t)
}

// TestC10Race: all gates open, real goroutine interleavings under the race detector.
func TestC10Race(t *testing.T) {
	run := vt.NewRun("C10", "exploration")
	run.SetRule("concurrent mode: the same shapes with every replica callback returning at once from its own goroutine (race detector on); the final verdict must equal the order-independent verdict of the outcome assignment (nil iff every key has its quorum), exactly one return, cleanup once after all calls.")
	run.ForEach("concurrent", vt.N(3000, 60000), func(c vt.CaseID, rng *rand.Rand, s *vt.Slot) {
		sh := fakeShape(rng, 6)
		if len(sh.Keys) == 0 {
			return
		}
		ids, _ := sh.calls()
		out := map[string]int{}
		for _, id := range ids {
			out[id] = rng.IntN(3)
			if rng.IntN(2) == 0 {
				out[id] = oOK
			}
		}
		var cleanups, finished atomic.Int64
		var cleanupSawAll atomic.Bool
		cleanupDone := make(chan struct{})
		err := ring.DoBatchWithOptions(context.Background(), ring.Write, sh.ring, sh.Keys, func(d ring.InstanceDesc, _ []int) error {
			defer finished.Add(1)
			switch out[d.Id] {
			case oClient:
				return clientErr{d.Id}
			case oServer:
				return serverErr{d.Id}
			}
			return nil
		}, ring.DoBatchOptions{Cleanup: func() {
			cleanupSawAll.Store(finished.Load() == int64(len(ids)))
			cleanups.Add(1)
			close(cleanupDone)
		}, IsClientError: func(err error) bool { var ce clientErr; return errors.As(err, &ce) }})
		<-cleanupDone
		d := decide(sh, out)
		run.EvalH(vt.Mix(vt.Hash64(fmt.Sprint(sh.Sets, out)), 77), len(ids) > 1)
		if (d == mustSucceed) != (err == nil) {
			run.Violation(c, "concurrent/verdict-differs-from-assignment", fmt.Sprintf("DoBatch returned %v but the outcome assignment says success=%v", err, d == mustSucceed), map[string]any{"shape": sh, "outcomes": out})
		}
		if cleanups.Load() != 1 || !cleanupSawAll.Load() {
			run.Violation(c, "concurrent/cleanup", "cleanup not exactly once after all replica calls", map[string]any{"cleanups": cleanups.Load(), "saw_all_finished": cleanupSawAll.Load()})
		}
	})
	run.Finish(t)
}
