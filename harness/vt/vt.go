// Package vt is the shared runtime of the verification harness: flags, seeded
// PRNG streams, case accounting, crash journal, verdicts, evidence parts,
// known findings and replay files.
package vt

import (
	"encoding/json"
	"flag"
	"fmt"
	"hash/fnv"
	"math/rand/v2"
	"os"
	"path/filepath"
	"runtime"
	"runtime/debug"
	"sort"
	"strings"
	"sync"
	"sync/atomic"
	"syscall"
	"testing"
	"time"
)

var (
	flagSeed     = flag.Int64("seed", 1, "VERIF_SEED")
	flagTier     = flag.String("tier", "quick", "quick|thorough")
	flagPart     = flag.String("part", "", "path of the evidence part file to write")
	flagReplays  = flag.String("replays", "", "directory for replay files")
	flagKnown    = flag.String("known", "", "known_findings.json")
	flagJournal  = flag.String("journal", "", "crash journal (mmap) path")
	flagReplay   = flag.String("replay", "", "replay file: run only that case")
	flagWorkers  = flag.Int("workers", 0, "parallel workers (0 = GOMAXPROCS)")
	flagScale    = flag.Float64("scale", 1.0, "multiplier on case counts (debug)")
	flagWorkDir  = flag.String("workdir", "", "scratch dir")
	flagOnlyGen  = flag.String("gen", "", "only run generators whose name has this prefix (debug)")
)

func Seed() int64      { return *flagSeed }
func Tier() string     { return *flagTier }
func Thorough() bool   { return *flagTier == "thorough" }
func WorkDir() string  { return *flagWorkDir }
func Workers() int {
	if *flagWorkers > 0 {
		return *flagWorkers
	}
	return runtime.GOMAXPROCS(0)
}

// N picks a case count by tier (and the debug scale).
func N(quick, thorough int) int {
	n := quick
	if Thorough() {
		n = thorough
	}
	n = int(float64(n) * *flagScale)
	if n < 1 {
		n = 1
	}
	return n
}

// CaseID identifies one case: everything about the case is a pure function of it.
type CaseID struct {
	Gen  string `json:"gen"`
	Idx  int64  `json:"idx"`
	Seed int64  `json:"seed"`
}

func (c CaseID) String() string { return fmt.Sprintf("%s#%d@%d", c.Gen, c.Idx, c.Seed) }

// Rand returns the PRNG stream of a case (pure function of the CaseID).
func (c CaseID) Rand() *rand.Rand {
	h := fnv.New64a()
	h.Write([]byte(c.Gen))
	return rand.New(rand.NewPCG(uint64(c.Seed)*0x9E3779B97F4A7C15^h.Sum64(), uint64(c.Idx)+0x1234567))
}

type known struct {
	Property  string `json:"property"`
	Signature string `json:"signature"`
	Status    string `json:"status"`
	Commit    string `json:"commit,omitempty"`
	What      string `json:"what"`
}

// Run is the accounting object of one test process ("part").
type Run struct {
	ID    string
	Level string
	start time.Time

	evals    atomic.Int64
	nontriv  atomic.Int64
	shards   [64]distinctShard
	counters sync.Map // string -> *atomic.Int64

	mu          sync.Mutex
	samples     []any
	sampleCap   int
	violations  map[string]string // sig -> replay path
	knownSeen   map[string]string // sig -> what
	known       []known
	rule        string
	assumptions []string
	extra       map[string]any
	exhaustive  *bool
	inconclusive []string

	journal []byte // mmap
	slotSeq atomic.Int64
}

type distinctShard struct {
	mu sync.Mutex
	m  map[uint64]struct{}
}

const slotSize = 512
const numSlots = 256

func NewRun(id, level string) *Run {
	r := &Run{ID: id, Level: level, start: time.Now(), sampleCap: 8,
		violations: map[string]string{}, knownSeen: map[string]string{}, extra: map[string]any{}}
	for i := range r.shards {
		r.shards[i].m = map[uint64]struct{}{}
	}
	if *flagKnown != "" {
		if b, err := os.ReadFile(*flagKnown); err == nil {
			var f struct {
				Findings []known `json:"findings"`
			}
			if err := json.Unmarshal(b, &f); err != nil {
				panic("known findings: " + err.Error())
			}
			r.known = f.Findings
		}
	}
	if *flagJournal != "" {
		f, err := os.OpenFile(*flagJournal, os.O_RDWR|os.O_CREATE|os.O_TRUNC, 0o644)
		if err == nil {
			if err = f.Truncate(slotSize * numSlots); err == nil {
				r.journal, _ = syscall.Mmap(int(f.Fd()), 0, slotSize*numSlots, syscall.PROT_READ|syscall.PROT_WRITE, syscall.MAP_SHARED)
			}
			f.Close()
		}
	}
	// keep full tracebacks of all goroutines on a fatal crash
	debug.SetTraceback("all")
	return r
}

func (r *Run) SetRule(s string)           { r.rule = s }
func (r *Run) Assume(s string)            { r.mu.Lock(); r.assumptions = append(r.assumptions, s); r.mu.Unlock() }
func (r *Run) SetExtra(k string, v any)   { r.mu.Lock(); r.extra[k] = v; r.mu.Unlock() }
func (r *Run) SetExhaustive(b bool)       { r.exhaustive = &b }
func (r *Run) Inconclusive(reason string) { r.mu.Lock(); r.inconclusive = append(r.inconclusive, reason); r.mu.Unlock() }

// Count adds to a named counter reported in the evidence.
func (r *Run) Count(name string, n int64) {
	v, ok := r.counters.Load(name)
	if !ok {
		v, _ = r.counters.LoadOrStore(name, new(atomic.Int64))
	}
	v.(*atomic.Int64).Add(n)
}

func (r *Run) Counter(name string) int64 {
	v, ok := r.counters.Load(name)
	if !ok {
		return 0
	}
	return v.(*atomic.Int64).Load()
}

func hash64(s string) uint64 {
	h := fnv.New64a()
	h.Write([]byte(s))
	return h.Sum64()
}

// Eval counts one evaluated case. key describes the case content (or its
// class); when nontrivial it is added to the distinct set.
func (r *Run) Eval(key string, nontrivial bool) {
	r.evals.Add(1)
	if !nontrivial {
		return
	}
	r.nontriv.Add(1)
	h := hash64(key)
	s := &r.shards[h%64]
	s.mu.Lock()
	s.m[h] = struct{}{}
	s.mu.Unlock()
}

// Hash64 hashes a string (FNV-1a).
func Hash64(s string) uint64 { return hash64(s) }

// Mix combines hashes cheaply (splitmix-style).
func Mix(h uint64, vs ...uint64) uint64 {
	for _, v := range vs {
		h ^= v + 0x9E3779B97F4A7C15 + (h << 6) + (h >> 2)
		h *= 0xBF58476D1CE4E5B9
		h ^= h >> 31
	}
	return h
}

// EvalH is Eval with a precomputed hash of the case.
func (r *Run) EvalH(h uint64, nontrivial bool) {
	r.evals.Add(1)
	if !nontrivial {
		return
	}
	r.nontriv.Add(1)
	s := &r.shards[h%64]
	s.mu.Lock()
	s.m[h] = struct{}{}
	s.mu.Unlock()
}

// Distinct adds a key to the distinct set without counting an evaluation.
func (r *Run) Distinct(key string) {
	h := hash64(key)
	s := &r.shards[h%64]
	s.mu.Lock()
	s.m[h] = struct{}{}
	s.mu.Unlock()
}

func (r *Run) distinct() int {
	n := 0
	for i := range r.shards {
		r.shards[i].mu.Lock()
		n += len(r.shards[i].m)
		r.shards[i].mu.Unlock()
	}
	return n
}

// Sample keeps up to a handful of actual cases for the evidence.
func (r *Run) Sample(v any) {
	r.mu.Lock()
	if len(r.samples) < r.sampleCap {
		r.samples = append(r.samples, v)
	}
	r.mu.Unlock()
}

func (r *Run) WantSample() bool {
	r.mu.Lock()
	defer r.mu.Unlock()
	return len(r.samples) < r.sampleCap
}

// Slot is a worker's entry in the crash journal.
type Slot struct {
	r   *Run
	idx int
}

func (r *Run) NewSlot() *Slot {
	return &Slot{r: r, idx: int(r.slotSeq.Add(1)-1) % numSlots}
}

// Enter records "this worker is now running case c" so that a process-fatal
// crash can be attributed. sig is the finding signature a crash would have.
func (s *Slot) Enter(c CaseID, sig string) {
	if s == nil || s.r.journal == nil {
		return
	}
	b, _ := json.Marshal(struct {
		CaseID
		Sig string `json:"sig"`
	}{c, sig})
	if len(b) > slotSize-2 {
		b = b[:slotSize-2]
	}
	off := s.idx * slotSize
	buf := s.r.journal[off : off+slotSize]
	buf[0], buf[1] = 0, 0
	copy(buf[2:], b)
	buf[0], buf[1] = byte(len(b)>>8), byte(len(b))
}

func (s *Slot) Leave() {
	if s == nil || s.r.journal == nil {
		return
	}
	off := s.idx * slotSize
	s.r.journal[off], s.r.journal[off+1] = 0, 0
}

// Violation reports one violation. sig is the stable signature used to match
// known findings; what is a one-line description; detail goes to the replay file.
func (r *Run) Violation(c CaseID, sig, what string, detail any) {
	r.mu.Lock()
	defer r.mu.Unlock()
	for _, k := range r.known {
		if k.Property == r.ID && k.Status == "known" && k.Signature == sig {
			if _, seen := r.knownSeen[sig]; !seen {
				r.knownSeen[sig] = k.What
				fmt.Printf("KNOWN-FINDING: property=%s %s [%s]\n", r.ID, k.What, sig)
			}
			return
		}
	}
	if _, dup := r.violations[sig]; dup {
		return
	}
	path := ""
	if *flagReplays != "" {
		os.MkdirAll(*flagReplays, 0o755)
		name := fmt.Sprintf("%s-%016x.json", r.ID, hash64(sig+c.String()))
		path = filepath.Join(*flagReplays, name)
		b, _ := json.MarshalIndent(map[string]any{
			"property": r.ID, "signature": sig, "what": what, "case": c, "tier": Tier(), "detail": detail,
		}, "", " ")
		os.WriteFile(path, b, 0o644)
	}
	r.violations[sig] = path
	fmt.Printf("VIOLATION property=%s replay=%s\n", r.ID, path)
	fmt.Printf("  what: %s [%s] case=%s\n", what, sig, c)
}

func (r *Run) Violations() int {
	r.mu.Lock()
	defer r.mu.Unlock()
	return len(r.violations)
}

// Replay returns the case to replay, if the process was started in replay mode.
func ReplayCase() (CaseID, bool) {
	if *flagReplay == "" {
		return CaseID{}, false
	}
	b, err := os.ReadFile(*flagReplay)
	if err != nil {
		panic(err)
	}
	var f struct {
		Case CaseID `json:"case"`
	}
	if err := json.Unmarshal(b, &f); err != nil {
		panic(err)
	}
	return f.Case, true
}

// GenEnabled tells whether generator name should run (replay and -gen filters).
func GenEnabled(name string) bool {
	if c, ok := ReplayCase(); ok {
		return c.Gen == name
	}
	if *flagOnlyGen != "" {
		for _, p := range strings.Split(*flagOnlyGen, ",") {
			if strings.HasPrefix(name, p) {
				return true
			}
		}
		return false
	}
	return true
}

// ForEach runs fn for case indexes [0,n) of generator gen on the worker pool.
// Each case gets its own PRNG stream; in replay mode only the recorded index runs.
func (r *Run) ForEach(gen string, n int, fn func(c CaseID, rng *rand.Rand, s *Slot)) {
	if !GenEnabled(gen) {
		return
	}
	if rc, ok := ReplayCase(); ok {
		s := r.NewSlot()
		fn(rc, rc.Rand(), s)
		return
	}
	var next atomic.Int64
	var wg sync.WaitGroup
	w := Workers()
	if w > n {
		w = n
	}
	for i := 0; i < w; i++ {
		wg.Add(1)
		go func() {
			defer wg.Done()
			s := r.NewSlot()
			for {
				i := next.Add(1) - 1
				if i >= int64(n) {
					return
				}
				c := CaseID{Gen: gen, Idx: i, Seed: Seed()}
				fn(c, c.Rand(), s)
			}
		}()
	}
	wg.Wait()
}

// ForEachT is ForEach on parallel subtests (needed for synctest bubbles, which
// want a *testing.T of their own).
func (r *Run) ForEachT(t *testing.T, gen string, n int, fn func(t *testing.T, c CaseID, rng *rand.Rand, s *Slot)) {
	if !GenEnabled(gen) {
		return
	}
	if rc, ok := ReplayCase(); ok {
		s := r.NewSlot()
		fn(t, rc, rc.Rand(), s)
		return
	}
	var next atomic.Int64
	w := Workers()
	if w > n {
		w = n
	}
	t.Run(gen, func(t *testing.T) {
		for i := 0; i < w; i++ {
			t.Run(fmt.Sprintf("w%d", i), func(t *testing.T) {
				t.Parallel()
				s := r.NewSlot()
				for {
					i := next.Add(1) - 1
					if i >= int64(n) {
						return
					}
					c := CaseID{Gen: gen, Idx: i, Seed: Seed()}
					fn(t, c, c.Rand(), s)
				}
			})
		}
	})
}

// Finish writes the evidence part and fails the test on violations.
func (r *Run) Finish(t *testing.T) {
	cov := map[string]any{
		"evaluations":         r.evals.Load(),
		"nontrivial_evals":    r.nontriv.Load(),
		"distinct_nontrivial": r.distinct(),
		"rule":                r.rule,
		"samples":             r.samples,
	}
	cnt := map[string]int64{}
	r.counters.Range(func(k, v any) bool { cnt[k.(string)] = v.(*atomic.Int64).Load(); return true })
	cov["counters"] = cnt
	for k, v := range r.extra {
		cov[k] = v
	}
	if r.exhaustive != nil {
		cov["exhaustive"] = *r.exhaustive
	}
	kf := []string{}
	for s := range r.knownSeen {
		kf = append(kf, s)
	}
	sort.Strings(kf)
	part := map[string]any{
		"property_id":   r.ID,
		"tier":          Tier(),
		"seed":          Seed(),
		"level":         r.Level,
		"coverage":      cov,
		"assumptions":   r.assumptions,
		"wall_s":        time.Since(r.start).Seconds(),
		"violations":    len(r.violations),
		"known_findings_seen": kf,
		"inconclusive":  r.inconclusive,
	}
	if *flagPart != "" {
		b, _ := json.MarshalIndent(part, "", " ")
		if err := os.WriteFile(*flagPart, b, 0o644); err != nil {
			t.Fatalf("write evidence part: %v", err)
		}
	}
	fmt.Printf("SUMMARY property=%s tier=%s seed=%d evaluations=%d nontrivial=%d distinct_nontrivial=%d violations=%d known=%d wall=%.1fs counters=%v\n",
		r.ID, Tier(), Seed(), r.evals.Load(), r.nontriv.Load(), r.distinct(), len(r.violations), len(kf), time.Since(r.start).Seconds(), cnt)
	for _, s := range r.inconclusive {
		fmt.Printf("INCONCLUSIVE property=%s reason=%s\n", r.ID, s)
	}
	if len(r.violations) > 0 {
		t.Fail()
	}
}

// Recover runs fn and turns a panic on this goroutine into (panicked, value).
func Recover(fn func()) (p any, stack string) {
	defer func() {
		if x := recover(); x != nil {
			p = x
			stack = string(debug.Stack())
		}
	}()
	fn()
	return nil, ""
}
