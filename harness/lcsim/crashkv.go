package lcsim

import (
	"context"
	"errors"
	"sync"

	"github.com/grafana/dskit/kv"
)

var ErrCrashed = errors.New("lcsim: incarnation crashed")

// CrashKV wraps any kv.Client and "crashes" its user at a chosen write boundary: before the
// commit of the k-th write (the caller is parked inside the CAS function that produced the value
// to be written) or right after it (parked when the inner CAS returns). Parked goroutines are
// released by Release(); everything the incarnation does afterwards is rejected.
type CrashKV struct {
	kv.Client
	mu       sync.Mutex
	commits  int
	K        int  // crash at the K-th write (1-based), 0 = never
	Before   bool // before or after its commit
	dead     bool
	Crashed  chan struct{}
	once     sync.Once
	released chan struct{}
	relOnce  sync.Once
	// Log of committed writes (outputs of the committing CAS functions), for the oracle
	OnCommit func(n int)
}

func NewCrashKV(inner kv.Client, k int, before bool) *CrashKV {
	return &CrashKV{Client: inner, K: k, Before: before, Crashed: make(chan struct{}), released: make(chan struct{})}
}

func (c *CrashKV) Release()     { c.relOnce.Do(func() { close(c.released) }) }
func (c *CrashKV) Commits() int { c.mu.Lock(); defer c.mu.Unlock(); return c.commits }
func (c *CrashKV) IsDead() bool { c.mu.Lock(); defer c.mu.Unlock(); return c.dead }
func (c *CrashKV) park() {
	c.mu.Lock()
	c.dead = true
	c.mu.Unlock()
	c.once.Do(func() { close(c.Crashed) })
	<-c.released
}

func (c *CrashKV) Get(ctx context.Context, key string) (interface{}, error) {
	if c.IsDead() {
		return nil, ErrCrashed
	}
	return c.Client.Get(ctx, key)
}

func (c *CrashKV) CAS(ctx context.Context, key string, f func(in interface{}) (out interface{}, retry bool, err error)) error {
	if c.IsDead() {
		return ErrCrashed
	}
	wrote := false
	err := c.Client.CAS(ctx, key, func(in interface{}) (interface{}, bool, error) {
		if c.IsDead() {
			return nil, false, ErrCrashed
		}
		out, retry, err := f(in)
		wrote = err == nil && out != nil
		if wrote && c.K > 0 && c.Before {
			c.mu.Lock()
			hit := c.commits+1 == c.K
			c.mu.Unlock()
			if hit {
				c.park()
				return nil, false, ErrCrashed
			}
		}
		return out, retry, err
	})
	if err == nil && wrote {
		c.mu.Lock()
		c.commits++
		n := c.commits
		c.mu.Unlock()
		if c.OnCommit != nil {
			c.OnCommit(n)
		}
		if c.K > 0 && !c.Before && n == c.K {
			c.park()
			return ErrCrashed
		}
	}
	return err
}

func (c *CrashKV) WatchKey(ctx context.Context, key string, f func(interface{}) bool) {
	c.Client.WatchKey(ctx, key, func(v interface{}) bool {
		if c.IsDead() {
			return false
		}
		return f(v)
	})
}
