// Package lcsim runs real ring lifecyclers (full and basic) on the recording store
// and checks the complete log of written ring versions against the clauses of C08/C09.
package lcsim

import (
	"context"
	"fmt"
	"sort"
	"strings"
	"time"

	"github.com/go-kit/log"

	"github.com/grafana/dskit/kv"
	"github.com/grafana/dskit/ring"
	"github.com/grafana/dskit/services"

	"verifharness/recstore"
)

const Key = "ring"

type Cfg struct {
	ID            string                    `json:"id"`
	Kind          string                    `json:"kind"` // full | basic
	JoinAfter     time.Duration             `json:"join_after"`
	Observe       time.Duration             `json:"observe_period"`
	Heartbeat     time.Duration             `json:"heartbeat_period"`
	MinReady      time.Duration             `json:"min_ready"`
	NumTokens     int                       `json:"num_tokens"`
	Unregister    bool                      `json:"unregister_on_shutdown"`
	ReadinessRing bool                      `json:"readiness_check_ring_health"`
	TokensFile    string                    `json:"tokens_file"`
	AutoForget    time.Duration             `json:"auto_forget"`
	RegisterState ring.InstanceState        `json:"basic_register_state"`
	LeaveOnStop   bool                      `json:"basic_leave_on_stopping"`
	Zone          string                    `json:"zone"`
	Seed          int64                     `json:"token_seed"`
	HBTimeout     time.Duration             `json:"heartbeat_timeout"`
	FinalSleep    time.Duration             `json:"final_sleep"`
	Generator     ring.TokenGenerator       `json:"-"`
	KVWrap        func(kv.Client) kv.Client `json:"-"`
}

// Inst is one incarnation of a lifecycler identity.
type Inst struct {
	Cfg         Cfg
	Incarnation int
	Writer      string
	Handle      *recstore.Handle
	Client      kv.Client
	Full        *ring.Lifecycler
	Basic       *ring.BasicLifecycler

	StartedAt time.Time
	StopAt    time.Time // stop requested (zero = not yet)
	CrashedAt time.Time
	Started   bool
	// bookkeeping for the checker
	FreshJoin          bool // no entry / no tokens in ring and no tokens file when this incarnation started
	EntryAbsentAtStart bool
	// InheritedTokens: the complete token list found in the own ring entry when this incarnation started (nil when
	// the entry was absent, incomplete, or a tokens file decides): "tokens inherited from the ring are kept"
	InheritedTokens []uint32
	ReadyFirstAt    time.Time
}

func (i *Inst) Svc() services.Service {
	if i.Full != nil {
		return i.Full
	}
	return i.Basic
}

// New builds (does not start) an incarnation on its own store handle.
func New(store *recstore.Store, cfg Cfg, incarnation int) (*Inst, error) {
	w := fmt.Sprintf("%s#%d", cfg.ID, incarnation)
	h := store.Client(w)
	in, err := NewWithClient(cfg, incarnation, h)
	if err != nil {
		return nil, err
	}
	in.Handle = h
	return in, nil
}

// NewWithClient builds an incarnation on any kv.Client (e.g. a gossip store client behind a crash wrapper).
func NewWithClient(cfg Cfg, incarnation int, client kv.Client) (*Inst, error) {
	in := &Inst{Cfg: cfg, Incarnation: incarnation, Writer: fmt.Sprintf("%s#%d", cfg.ID, incarnation)}
	in.Client = client
	if cfg.KVWrap != nil {
		in.Client = cfg.KVWrap(client)
	}
	gen := cfg.Generator
	if gen == nil {
		gen = ring.NewRandomTokenGeneratorWithSeed(cfg.Seed)
	}
	hbt := cfg.HBTimeout
	if hbt == 0 {
		hbt = time.Minute
	}
	logger := log.NewNopLogger()
	switch cfg.Kind {
	case "full":
		lc := ring.LifecyclerConfig{
			RingConfig:               ring.Config{KVStore: kv.Config{Mock: in.Client}, HeartbeatTimeout: hbt, ReplicationFactor: 1},
			NumTokens:                cfg.NumTokens,
			HeartbeatPeriod:          cfg.Heartbeat,
			HeartbeatTimeout:         hbt,
			ObservePeriod:            cfg.Observe,
			JoinAfter:                cfg.JoinAfter,
			MinReadyDuration:         cfg.MinReady,
			FinalSleep:               cfg.FinalSleep,
			TokensFilePath:           cfg.TokensFile,
			Zone:                     cfg.Zone,
			UnregisterOnShutdown:     cfg.Unregister,
			ReadinessCheckRingHealth: cfg.ReadinessRing,
			Addr:                     "10.0.0." + strings.TrimLeft(cfg.ID, "abcdefghijklmnopqrstuvwxyz-"),
			Port:                     7946,
			ID:                       cfg.ID,
			RingTokenGenerator:       gen,
		}
		if lc.HeartbeatPeriod == 0 {
			// Validate() refuses 0; a huge period is "heartbeating disabled" for every script length
			lc.HeartbeatPeriod = 1000 * time.Hour
		}
		l, err := ring.NewLifecycler(lc, nil, "verif", Key, false, logger, nil)
		if err != nil {
			return nil, err
		}
		in.Full = l
	case "basic":
		bc := ring.BasicLifecyclerConfig{ID: cfg.ID, Addr: "10.0.1.1:7946", Zone: cfg.Zone, HeartbeatPeriod: cfg.Heartbeat, HeartbeatTimeout: hbt,
			TokensObservePeriod: cfg.Observe, NumTokens: cfg.NumTokens, KeepInstanceInTheRingOnShutdown: !cfg.Unregister, RingTokenGenerator: gen}
		var d ring.BasicLifecyclerDelegate = ring.NewInstanceRegisterDelegate(cfg.RegisterState, cfg.NumTokens)
		if cfg.FinalSleep > 0 {
			// the application's own stopping work (flushing, hand-over): the lifecycler keeps heart-beating meanwhile
			d = slowStopDelegate{d, cfg.FinalSleep}
		}
		if cfg.TokensFile != "" {
			d = ring.NewTokensPersistencyDelegate(cfg.TokensFile, ring.ACTIVE, d, logger)
		}
		if cfg.LeaveOnStop {
			d = ring.NewLeaveOnStoppingDelegate(d, logger)
		}
		if cfg.AutoForget > 0 {
			d = ring.NewAutoForgetDelegate(cfg.AutoForget, d, logger)
		}
		l, err := ring.NewBasicLifecycler(bc, "verif", Key, in.Client, d, logger, nil)
		if err != nil {
			return nil, err
		}
		in.Basic = l
	default:
		return nil, fmt.Errorf("unknown kind %q", cfg.Kind)
	}
	return in, nil
}

func (i *Inst) Start() error {
	i.Started = true
	i.StartedAt = time.Now()
	return i.Svc().StartAsync(context.Background())
}

func (i *Inst) Stop() {
	if i.StopAt.IsZero() {
		i.StopAt = time.Now()
	}
	i.Svc().StopAsync()
}

func (i *Inst) State() ring.InstanceState {
	if i.Full != nil {
		return i.Full.GetState()
	}
	return i.Basic.GetState()
}

// Mark says that the versions (from, to] of the ring key were committed during a harness action.
type Mark struct {
	From, To int
	Kind     string // claim:<from> | external-state | ...
	Writer   string
}

type Finding struct {
	Sig    string
	What   string
	Detail map[string]any
}

type Checker struct {
	Store *recstore.Store
	Insts []*Inst // all incarnations, in start order
	Marks []Mark
	T0    time.Time
	EndAt time.Time // end of the observed period (for the last heartbeat gap)
	// DemandFreshReRegistration: re-registrations of a running lifecycler must carry a fresh registration time
	DemandFreshReRegistration bool
	// ClaimVictims: identities whose tokens were handed over to another instance (token-count clause not applicable)
	ClaimVictims map[string]bool
	// CheckInherited: judge "tokens inherited from the ring are kept" (stores that replace values; on the merging
	// gossip store a concurrent conflict resolution may legitimately strip a token)
	CheckInherited bool
	// Stolen: identities from whose entry the environment took a token away (their inherited list cannot be kept)
	Stolen map[string]bool
	// Records, when set, replaces the recording store as the source of committed writes (e.g. a recording
	// proxy in front of the gossip store)
	Records []Record
}

// Record is one committed write: the value given to the writer's CAS function and the value it returned.
type Record struct {
	N      int
	Writer string
	At     time.Time
	In     *ring.Desc
	Out    *ring.Desc
}

func canonEntry(e ring.InstanceDesc) string {
	return fmt.Sprintf("{a=%s z=%s st=%v ts=%d reg=%d ro=%v/%d tok=%v}", e.Addr, e.Zone, e.State, e.Timestamp, e.RegisteredTimestamp, e.ReadOnly, e.ReadOnlyUpdatedTimestamp, e.Tokens)
}

func Canon(d *ring.Desc) string {
	if d == nil {
		return "<nil>"
	}
	var ids []string
	for id := range d.Ingesters {
		ids = append(ids, id)
	}
	sort.Strings(ids)
	var b strings.Builder
	for _, id := range ids {
		fmt.Fprintf(&b, "%s%s ", id, canonEntry(d.Ingesters[id]))
	}
	return b.String()
}

// order of the published states: pending, joining, active, leaving
var stateRank = map[ring.InstanceState]int{ring.PENDING: 0, ring.JOINING: 1, ring.ACTIVE: 2, ring.LEAVING: 3}

func legalSameIncarnation(from, to ring.InstanceState) bool {
	if from == to {
		return true
	}
	rf, okf := stateRank[from]
	rt, okt := stateRank[to]
	if !okf || !okt {
		return false // LEFT is never published by a lifecycler
	}
	// forward along pending, joining, active, leaving; plus the documented joining -> pending
	return rt > rf || (from == ring.JOINING && to == ring.PENDING)
}

// Check runs the log checker and returns the findings.
func (c *Checker) Check() (findings []Finding, stats map[string]int) {
	stats = map[string]int{}
	add := func(sig, what string, d map[string]any) {
		findings = append(findings, Finding{sig, what, d})
	}
	byWriter := map[string]*Inst{}
	byID := map[string][]*Inst{}
	for _, in := range c.Insts {
		byWriter[in.Writer] = in
		byID[in.Cfg.ID] = append(byID[in.Cfg.ID], in)
	}
	markOf := func(n int, writer string) []Mark {
		var ms []Mark
		for _, m := range c.Marks {
			if n > m.From && n <= m.To && (m.Writer == "" || m.Writer == writer) {
				ms = append(ms, m)
			}
		}
		return ms
	}
	// records: one per committed write, with the value the writer's function was given (In) and returned (Out)
	type rec struct {
		N      int
		Writer string
		At     time.Time
		In     *ring.Desc
		Out    *ring.Desc
	}
	var vers []rec
	if c.Records != nil {
		for _, r := range c.Records {
			vers = append(vers, rec{r.N, r.Writer, r.At, r.In, r.Out})
		}
	} else {
		decoded := map[int]*ring.Desc{0: ring.NewDesc()}
		sv := c.Store.VersionsOf(Key)
		for _, v := range sv {
			if v.Deleted {
				decoded[v.N] = ring.NewDesc()
				continue
			}
			decoded[v.N] = ring.GetOrCreateRingDesc(c.Store.Decode(v))
		}
		for _, v := range sv {
			vers = append(vers, rec{v.N, v.Writer, v.At, decoded[v.InN], decoded[v.N]})
		}
	}
	inOf := map[int]*ring.Desc{}
	for _, v := range vers {
		inOf[v.N] = v.In
	}
	lastWriteAt := map[string]time.Time{}  // writer -> last commit time
	firstTokenVersion := map[string]int{}  // id|token -> version where the token first appeared in id's list
	activeSeen := map[string]bool{}        // writer -> first ACTIVE version judged
	lastStateWriter := map[string]string{} // id -> writer of the last version that held the entry
	for _, v := range vers {
		prev := v.In
		cur := v.Out
		if prev == nil {
			prev = ring.NewDesc()
		}
		if cur == nil {
			cur = ring.NewDesc()
		}
		T := v.At
		w := byWriter[v.Writer]
		stats["versions"]++
		d := func(extra map[string]any) map[string]any {
			m := map[string]any{"version": v.N, "writer": v.Writer, "at": T.Sub(c.T0).String(), "before": Canon(prev), "after": Canon(cur)}
			for k, x := range extra {
				m[k] = x
			}
			return m
		}
		if w == nil {
			// environment (wipe / harness)
			continue
		}
		own := w.Cfg.ID
		marks := markOf(v.N, v.Writer)
		// ---- (a) only the own entry is edited
		ids := map[string]bool{}
		for id := range prev.Ingesters {
			ids[id] = true
		}
		for id := range cur.Ingesters {
			ids[id] = true
		}
		for id := range ids {
			if id == own {
				continue
			}
			pe, inPrev := prev.Ingesters[id]
			ce, inCur := cur.Ingesters[id]
			if inPrev && inCur && canonEntry(pe) == canonEntry(ce) {
				continue
			}
			// token hand-over
			claimed := false
			for _, m := range marks {
				if m.Kind == "claim:"+id && inPrev && inCur {
					pe2 := pe
					pe2.Tokens = nil
					ce2 := ce
					ce2.Tokens = nil
					if canonEntry(pe2) == canonEntry(ce2) && len(ce.Tokens) == 0 {
						claimed = true
					}
				}
			}
			if claimed {
				stats["token_handovers"]++
				continue
			}
			// auto-forget of a long-dead entry
			if inPrev && !inCur && w.Cfg.AutoForget > 0 && T.Sub(time.Unix(pe.Timestamp, 0)) > w.Cfg.AutoForget {
				stats["auto_forgets"]++
				continue
			}
			sig := "foreign-entry-changed"
			switch {
			case inPrev && !inCur:
				sig = "foreign-entry-removed"
			case !inPrev && inCur:
				sig = "foreign-entry-added"
			}
			add(sig, fmt.Sprintf("%s changed the entry of %s", v.Writer, id), d(map[string]any{"entry": id}))
		}
		// ---- own entry
		pe, inPrev := prev.Ingesters[own]
		ce, inCur := cur.Ingesters[own]
		if inCur {
			stats["own_writes"]++
			// (b) state machine
			if inPrev {
				sameInc := lastStateWriter[own] == v.Writer
				external := false
				for _, m := range marks {
					if m.Kind == "external-state" {
						external = true
					}
				}
				_ = external
				ok := legalSameIncarnation(pe.State, ce.State)
				if !sameInc && !ok {
					// restart edges
					ok = (pe.State == ring.JOINING && ce.State == ring.PENDING) || (pe.State == ring.LEAVING && ce.State == ring.ACTIVE)
				}
				if sameInc && pe.State == ring.LEAVING && ce.State == ring.ACTIVE {
					ok = false
				}
				if !sameInc && w.Cfg.Kind == "basic" && ce.State == w.Cfg.RegisterState {
					ok = true // the basic lifecycler registers with the state its delegate is configured with
				}
				if !ok {
					add("illegal-state-edge", fmt.Sprintf("%s published %v -> %v (same incarnation: %v)", v.Writer, pe.State, ce.State, sameInc), d(nil))
				}
				if pe.State != ce.State {
					stats["state_edges"]++
				}
				// (c) heartbeat stamp monotone
				if ce.Timestamp < pe.Timestamp {
					add("heartbeat-went-backwards", fmt.Sprintf("%s heartbeat stamp %d -> %d", own, pe.Timestamp, ce.Timestamp), d(nil))
				}
				// (e) registration time kept
				if pe.RegisteredTimestamp != 0 && ce.RegisteredTimestamp != pe.RegisteredTimestamp {
					add("registration-time-changed", fmt.Sprintf("%s registration time %d -> %d", own, pe.RegisteredTimestamp, ce.RegisteredTimestamp), d(nil))
				}
			} else {
				stats["registrations"]++
				// an incarnation that found no entry when it started stamps the registration time with now;
				// any registration carries a registration time that is set and not in the future
				if _, wroteBefore := lastWriteAt[v.Writer]; !wroteBefore && w.EntryAbsentAtStart && ce.RegisteredTimestamp != T.Unix() {
					add("registration-time-not-fresh", fmt.Sprintf("%s registered with registration time %d at %d", own, ce.RegisteredTimestamp, T.Unix()), d(nil))
				}
				if ce.RegisteredTimestamp <= 0 || ce.RegisteredTimestamp > T.Unix() {
					add("registration-time-unset-or-in-future", fmt.Sprintf("%s registered with registration time %d at %d", own, ce.RegisteredTimestamp, T.Unix()), d(nil))
				}
				// a running lifecycler that re-registers at a heartbeat after its entry vanished uses a fresh one (C09)
				if _, wroteBefore := lastWriteAt[v.Writer]; wroteBefore && c.DemandFreshReRegistration && ce.RegisteredTimestamp != T.Unix() {
					add("re-registration-time-not-fresh", fmt.Sprintf("%s re-registered with registration time %d at %d", own, ce.RegisteredTimestamp, T.Unix()), d(nil))
				}
			}
			lastStateWriter[own] = v.Writer
			// token list well-formed
			for k := 1; k < len(ce.Tokens); k++ {
				if ce.Tokens[k-1] >= ce.Tokens[k] {
					add("own-tokens-not-sorted-unique", fmt.Sprintf("%s published an unsorted or duplicated token list", own), d(nil))
					break
				}
			}
			// remember where this incarnation first published each token: that is the version in which it
			// chose it (a token already in the own entry then was inherited from the ring; an incarnation
			// that re-registers after its entry was removed re-publishes tokens it chose earlier)
			for _, t := range ce.Tokens {
				k := fmt.Sprintf("%s|%d", v.Writer, t)
				if _, ok := firstTokenVersion[k]; !ok {
					had := false
					if inPrev {
						for _, pt := range pe.Tokens {
							if pt == t {
								had = true
							}
						}
					}
					if had {
						firstTokenVersion[k] = -1
					} else {
						firstTokenVersion[k] = v.N
					}
				}
			}
			// (f') first ACTIVE version of an incarnation that found its complete token list in the ring
			if ce.State == ring.ACTIVE && !activeSeen[v.Writer] && c.CheckInherited && len(w.InheritedTokens) > 0 && !c.ClaimVictims[own] && !c.Stolen[own] {
				stats["inherited_activations"]++
				if fmt.Sprint(ce.Tokens) != fmt.Sprint(w.InheritedTokens) {
					add("inherited-tokens-not-kept", fmt.Sprintf("%s found tokens %v in its ring entry when it started but became ACTIVE with %v", own, w.InheritedTokens, ce.Tokens), d(nil))
				}
			}
			// (f) first ACTIVE version of a fresh join
			if ce.State == ring.ACTIVE && !activeSeen[v.Writer] {
				activeSeen[v.Writer] = true
				if w.FreshJoin && !c.ClaimVictims[own] {
					stats["fresh_activations"]++
					if len(ce.Tokens) != w.Cfg.NumTokens {
						add("active-with-wrong-token-count", fmt.Sprintf("%s became ACTIVE with %d tokens, configured %d", own, len(ce.Tokens), w.Cfg.NumTokens), d(nil))
					}
					for _, t := range ce.Tokens {
						fv := firstTokenVersion[fmt.Sprintf("%s|%d", v.Writer, t)]
						if fv < 0 {
							continue
						}
						// the value the writer read in the attempt that committed version fv
						in, okIn := inOf[fv]
						if !okIn || in == nil {
							continue
						}
						inN := fv
						inherited := false
						for _, m := range markOf(fv, v.Writer) {
							if strings.HasPrefix(m.Kind, "claim:") {
								inherited = true
							}
						}
						if inherited {
							continue
						}
						for oid, oe := range in.Ingesters {
							if oid == own {
								continue
							}
							for _, ot := range oe.Tokens {
								if ot == t {
									add("chose-taken-token", fmt.Sprintf("%s chose token %d which was visible as %s's token in the version it read", own, t, oid), d(map[string]any{"chosen_in_version": fv, "read_version": inN}))
								}
							}
						}
					}
				}
			}
			// (d) heartbeat period while running
			if last, ok := lastWriteAt[v.Writer]; ok && w.Cfg.Heartbeat > 0 && (w.StopAt.IsZero() || !T.After(w.StopAt)) {
				bound := heartbeatBound(w.Cfg)
				if gap := T.Sub(last); gap > bound {
					add("heartbeat-gap", fmt.Sprintf("%s wrote nothing for %v (heartbeat period %v)", v.Writer, gap, w.Cfg.Heartbeat), d(nil))
				}
				stats["heartbeat_gaps_checked"]++
			}
			lastWriteAt[v.Writer] = T
		} else if inPrev {
			stats["own_removals"]++
			delete(lastStateWriter, own)
		}
	}
	// the last gap: from the last write to the stop request (or the end of the observation)
	for _, w := range c.Insts {
		last, ok := lastWriteAt[w.Writer]
		if !ok || w.Cfg.Heartbeat <= 0 || !w.CrashedAt.IsZero() {
			continue
		}
		end := c.EndAt
		if !w.StopAt.IsZero() && w.StopAt.Before(end) {
			end = w.StopAt
		}
		bound := heartbeatBound(w.Cfg)
		if !end.IsZero() && end.Sub(last) > bound {
			add("heartbeat-gap", fmt.Sprintf("%s wrote nothing for %v until %v (heartbeat period %v)", w.Writer, end.Sub(last), end.Sub(c.T0), w.Cfg.Heartbeat), map[string]any{"writer": w.Writer})
		}
	}
	return
}

// heartbeatBound is the longest legitimate silence of a running lifecycler whose writes are accepted. The full
// lifecycler has one ticker for its whole life: one period. The basic lifecycler heartbeats on its own ticker while it
// observes its tokens and starts a new ticker when it enters Running, so the silence across that hand-over is one
// period plus the part of the last period that had elapsed when the observation ended: at most min(observe, period).
func heartbeatBound(c Cfg) time.Duration {
	b := c.Heartbeat
	if c.Kind == "basic" {
		b += min(c.Observe, c.Heartbeat)
	}
	return b
}

// slowStopDelegate stands for an application whose stopping work takes a while (the basic lifecycler's counterpart of
// the full lifecycler's final sleep).
type slowStopDelegate struct {
	ring.BasicLifecyclerDelegate
	d time.Duration
}

func (s slowStopDelegate) OnRingInstanceStopping(l *ring.BasicLifecycler) {
	time.Sleep(s.d)
	s.BasicLifecyclerDelegate.OnRingInstanceStopping(l)
}
