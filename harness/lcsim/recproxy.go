package lcsim

import (
	"context"
	"sync"
	"time"

	"github.com/grafana/dskit/kv"
	"github.com/grafana/dskit/ring"
)

// RecLog collects the committed writes seen by the RecProxy clients of one store.
type RecLog struct {
	mu      sync.Mutex
	n       int
	records []Record
}

func (l *RecLog) N() int { l.mu.Lock(); defer l.mu.Unlock(); return l.n }
func (l *RecLog) Records() []Record {
	l.mu.Lock()
	defer l.mu.Unlock()
	return append([]Record(nil), l.records...)
}

func cloneDesc(v interface{}) *ring.Desc {
	d, _ := v.(*ring.Desc)
	if d == nil {
		return ring.NewDesc()
	}
	o := ring.NewDesc()
	for k, e := range d.Ingesters {
		e.Tokens = append([]uint32(nil), e.Tokens...)
		o.Ingesters[k] = e
	}
	return o
}

// RecProxy wraps any kv.Client and records, for every CAS that commits, the value the caller's function
// was given and the value it returned (the (in, out) pair of the committing attempt), with the writer
// identity and the commit time.
type RecProxy struct {
	kv.Client
	Writer string
	Log    *RecLog
}

func (p *RecProxy) CAS(ctx context.Context, key string, f func(in interface{}) (out interface{}, retry bool, err error)) error {
	var lastIn, lastOut *ring.Desc
	wrote := false
	err := p.Client.CAS(ctx, key, func(in interface{}) (interface{}, bool, error) {
		lastIn = cloneDesc(in)
		out, retry, err := f(in)
		wrote = err == nil && out != nil
		if wrote {
			lastOut = cloneDesc(out)
		}
		return out, retry, err
	})
	if err == nil && wrote && key == Key {
		p.Log.mu.Lock()
		p.Log.n++
		p.Log.records = append(p.Log.records, Record{N: p.Log.n, Writer: p.Writer, At: time.Now(), In: lastIn, Out: lastOut})
		p.Log.mu.Unlock()
	}
	return err
}
