package c06

import (
	"context"
	"encoding/binary"
	"fmt"
	"math/rand/v2"
	"regexp"
	"sort"
	"strings"
	"sync"
	"testing"
	"testing/synctest"
	"time"
	"unicode/utf8"

	"github.com/golang/snappy"

	"github.com/grafana/dskit/kv/memberlist"
	"github.com/grafana/dskit/ring"

	"verifharness/simnet"
	"verifharness/vt"
)

type acked struct {
	Node  int    `json:"node"`
	Key   string `json:"key"`
	Entry string `json:"entry"`
	TS    int64  `json:"ts"`
	Left  bool   `json:"removed"`
}

type watcher struct {
	node   int
	key    string
	mu     sync.Mutex
	last   string
	calls  int
	cancel context.CancelFunc
	inc    int
	atReg  string // what the node showed for the key when the watcher registered
	prefix bool
}

type sim struct {
	net      *simnet.Net
	rng      *rand.Rand
	n        int
	group    []int // partition group per node
	delayed  []delayedMsg
	round    int
	acks     []acked
	watchers []*watcher
	journal  []string
	counter  int
	stats    map[string]int
	pool     [][]byte
	line     bool // gossip only between neighbours n(i) <-> n(i+1): updates must be relayed
	// contended tokens. Two instances may claim the same token (concurrent joins on different nodes).
	// rewrites=false: only the write-once entries c<i> claim tokens of the shared pool; the merge result
	// is then a function of the set of entries and every node must settle the conflict the same way.
	// rewrites=true: ordinary entries, which are rewritten and removed later, claim pool tokens too
	// (generator "contended-rewrites", see the known finding on destructive conflict resolution).
	rewrites    bool
	onceWritten map[int]bool
	notify      time.Duration // the nodes' NotifyInterval
	// contendedLost: a node restarted after writing its write-once entry (a claimant of a pool token may have
	// vanished from the cluster after influencing what other nodes store)
	contendedLost bool
}

var poolToken = regexp.MustCompile(` ?90000[0-2]`)

// stripPool removes the shared-pool tokens from a canonical ring rendering.
func stripPool(v string) string {
	return strings.ReplaceAll(poolToken.ReplaceAllString(v, ""), "[ ", "[")
}

type delayedMsg struct {
	to  int
	at  int
	msg []byte
}

func (s *sim) log(f string, a ...any) { s.journal = append(s.journal, fmt.Sprintf(f, a...)) }

// casRing performs one acknowledged CAS on the instance ring of node i.
func (s *sim) casRing(i int) {
	cl := s.net.Client(i, ring.GetCodec())
	kind := s.rng.IntN(10)
	id := fmt.Sprintf("w%d-%d", i, s.rng.IntN(3))
	once := false
	if !s.rewrites && !s.onceWritten[i] && s.rng.IntN(4) == 0 {
		// the write-once entry of node i: never rewritten or removed afterwards
		once = true
		id = fmt.Sprintf("c%d", i)
		kind = 9
		s.onceWritten[i] = true
	}
	onceState := ring.InstanceState(s.rng.IntN(4))
	oncePool := uint32(900000 + s.rng.IntN(2))
	var a acked
	err := cl.CAS(context.Background(), simnet.RingKey, func(in interface{}) (interface{}, bool, error) {
		d := ring.GetOrCreateRingDesc(in)
		now := time.Now().Unix() // read inside f: a retry after "no change detected" happens a second later
		e, exists := d.Ingesters[id]
		switch {
		case kind == 0 && exists: // unregister own entry
			delete(d.Ingesters, id)
			a = acked{i, simnet.RingKey, id, now, true}
		case once:
			e = ring.InstanceDesc{Id: id, Addr: id, Zone: "z", State: onceState, Timestamp: now, RegisteredTimestamp: now,
				Tokens: []uint32{uint32(i*1000 + 777), uint32(500000 + i*1000 + 777), oncePool}}
			d.Ingesters[id] = e
			a = acked{i, simnet.RingKey, id, now, false}
			s.stats["ring_entries_with_contended_token"]++
		default:
			s.counter++
			e = ring.InstanceDesc{Id: id, Addr: id, Zone: "z", State: ring.InstanceState(s.rng.IntN(4)), Timestamp: now,
				Tokens: []uint32{uint32(i*1000 + s.counter%50), uint32(500000 + i*1000 + s.counter%50)}, RegisteredTimestamp: now}
			// every third entry also claims a token from a small pool shared by all nodes (two instances
			// joining concurrently on different nodes chose the same token): the merge has to settle the
			// conflict the same way on every node. A function of (id, ts), as all entry content is.
			if s.rewrites && (uint64(now)+uint64(i)+uint64(id[len(id)-1]))%3 == 0 {
				e.Tokens = append(e.Tokens, uint32(900000+(uint64(now)/3)%3))
				s.stats["ring_entries_with_contended_token"]++
			}
			if e.Tokens[0] > e.Tokens[1] {
				e.Tokens[0], e.Tokens[1] = e.Tokens[1], e.Tokens[0]
			}
			d.Ingesters[id] = e
			a = acked{i, simnet.RingKey, id, now, false}
		}
		return d, false, nil
	})
	if err == nil && a.Entry != "" {
		s.acks = append(s.acks, a)
		s.stats["cas_acked"]++
		s.log("r%d cas ring on n%d: %s ts=%d removed=%v", s.round, i, a.Entry, a.TS, a.Left)
	} else {
		s.stats["cas_failed"]++
		s.log("r%d cas ring on n%d failed: %v", s.round, i, err)
	}
}

func (s *sim) casPart(i int) {
	cl := s.net.Client(i, ring.GetPartitionRingCodec())
	pid := int32(s.rng.IntN(3))
	kind := s.rng.IntN(5)
	owner := fmt.Sprintf("o%d-%d", i, s.rng.IntN(2))
	var a, a2 acked
	err := cl.CAS(context.Background(), simnet.PartKey, func(in interface{}) (interface{}, bool, error) {
		d := ring.GetOrCreatePartitionRingDesc(in)
		now := time.Now()
		a, a2 = acked{}, acked{}
		switch kind {
		case 0, 1:
			// the content of a shared entry is a function of (entry, timestamp): two nodes writing the
			// same partition in the same second write the same content (the CRDT's precondition)
			want := ring.PartitionState(1 + (uint64(now.Unix())+uint64(pid)*7)%3)
			if !d.HasPartition(pid) {
				d.AddPartition(pid, want, now)
			} else if ok, _ := d.UpdatePartitionState(pid, want, now); !ok {
				return nil, false, nil
			}
			a = acked{i, simnet.PartKey, fmt.Sprintf("P%d", pid), now.Unix(), false}
		case 2:
			if !d.AddOrUpdateOwner(owner, ring.OwnerActive, pid, now) {
				return nil, false, nil
			}
			a = acked{i, simnet.PartKey, "O" + owner, now.Unix(), false}
		case 3:
			if !d.RemoveOwner(owner) {
				return nil, false, nil
			}
			a = acked{i, simnet.PartKey, "O" + owner, now.Unix(), true}
		default:
			if !d.HasPartition(pid) {
				return nil, false, nil
			}
			// the lock register, in half of the cases together with the state register in the same CAS
			// ("deactivate and lock"): both halves are acknowledged
			changedState := false
			if (uint64(now.Unix())/2+uint64(pid))%2 == 0 {
				want := ring.PartitionState(1 + (uint64(now.Unix())+uint64(pid)*7)%3)
				changedState, _ = d.UpdatePartitionState(pid, want, now)
			}
			changedLock := d.UpdatePartitionStateChangeLock(pid, (uint64(now.Unix())+uint64(pid))%2 == 0, now)
			switch {
			case changedLock && changedState:
				a = acked{i, simnet.PartKey, fmt.Sprintf("L%d", pid), now.Unix(), false}
				a2 = acked{i, simnet.PartKey, fmt.Sprintf("P%d", pid), now.Unix(), false}
			case changedLock:
				a = acked{i, simnet.PartKey, fmt.Sprintf("L%d", pid), now.Unix(), false}
			case changedState:
				a = acked{i, simnet.PartKey, fmt.Sprintf("P%d", pid), now.Unix(), false}
			default:
				return nil, false, nil
			}
		}
		return d, false, nil
	})
	if err == nil && a.Entry != "" {
		s.acks = append(s.acks, a)
		s.stats["cas_acked"]++
		s.log("r%d cas partitions on n%d: %s ts=%d removed=%v", s.round, i, a.Entry, a.TS, a.Left)
		if a2.Entry != "" {
			s.acks = append(s.acks, a2)
			s.log("r%d   (same CAS also changed %s)", s.round, a2.Entry)
		}
	}
}

func (s *sim) addWatcher() {
	i := s.rng.IntN(s.n)
	key := []string{simnet.RingKey, simnet.PartKey}[s.rng.IntN(2)]
	w := &watcher{node: i, key: key, inc: s.net.Nodes[i].Incarnation}
	ctx, cancel := context.WithCancel(context.Background())
	w.cancel = cancel
	var cl *memberlist.Client
	if key == simnet.RingKey {
		cl = s.net.Client(i, ring.GetCodec())
	} else {
		cl = s.net.Client(i, ring.GetPartitionRingCodec())
	}
	w.atReg = s.net.Visible(i, key)
	seen := func(v interface{}) bool {
		w.mu.Lock()
		w.last = simnet.Canon(v, true)
		w.calls++
		w.mu.Unlock()
		return true
	}
	if s.rng.IntN(2) == 0 {
		// a prefix watcher (first two characters of the key), judged on this key only
		w.prefix = true
		go cl.WatchPrefix(ctx, key[:2], func(k string, v interface{}) bool {
			if k != key {
				return true
			}
			return seen(v)
		})
	} else {
		go cl.WatchKey(ctx, key, seen)
	}
	synctest.Wait() // registered before anything else happens
	s.watchers = append(s.watchers, w)
	s.log("r%d watch %s on n%d (prefix watcher: %v)", s.round, key, i, w.prefix)
}

// gossipRound: every node's pending broadcasts go through the adversary.
func (s *sim) gossipRound(lossP float64, fullFanout bool, hostile bool) {
	s.round++
	line := s.line
	for i := 0; i < s.n; i++ {
		msgs := s.net.Collect(i)
		for _, m := range msgs {
			s.pool = append(s.pool, m)
			s.stats["messages"]++
			var dests []int
			for j := 0; j < s.n; j++ {
				if j != i && (!line || j == i-1 || j == i+1) {
					dests = append(dests, j)
				}
			}
			if !fullFanout {
				s.rng.Shuffle(len(dests), func(a, b int) { dests[a], dests[b] = dests[b], dests[a] })
				k := 1 + s.rng.IntN(len(dests))
				dests = dests[:k]
			}
			for _, j := range dests {
				if s.group[i] != s.group[j] {
					s.stats["blocked_by_partition"]++
					continue
				}
				if s.rng.Float64() < lossP {
					s.stats["dropped"]++
					continue
				}
				if hostile {
					switch s.rng.IntN(8) {
					case 0:
						s.delayed = append(s.delayed, delayedMsg{j, s.round + 1 + s.rng.IntN(4), m})
						s.stats["delayed"]++
						continue
					case 1:
						s.net.Deliver(j, m)
						s.stats["duplicated"]++
					}
				}
				s.net.Deliver(j, m)
				s.stats["delivered"]++
			}
		}
	}
	// release delayed messages whose time has come (in shuffled order = reordering)
	var keep []delayedMsg
	var due []delayedMsg
	for _, d := range s.delayed {
		if d.at <= s.round {
			due = append(due, d)
		} else {
			keep = append(keep, d)
		}
	}
	s.rng.Shuffle(len(due), func(a, b int) { due[a], due[b] = due[b], due[a] })
	for _, d := range due {
		if s.group[d.to] >= 0 {
			s.net.Deliver(d.to, d.msg)
		}
	}
	s.delayed = keep
	synctest.Wait()
}

func corrupt(rng *rand.Rand, msg []byte) (string, []byte) {
	switch rng.IntN(6) {
	case 0:
		return "truncated", append([]byte(nil), msg[:rng.IntN(len(msg))]...)
	case 1:
		p := memberlist.KeyValuePair{Key: simnet.RingKey, Codec: "no-such-codec", Value: []byte("x")}
		b, _ := p.Marshal()
		return "unknown-codec", b
	case 2:
		// a real, decodable value under an empty key
		var p memberlist.KeyValuePair
		if err := p.Unmarshal(msg); err != nil {
			p = memberlist.KeyValuePair{Codec: ring.GetCodec().CodecID(), Value: snappy.Encode(nil, []byte{})}
		}
		p.Key = ""
		b, _ := p.Marshal()
		return "empty-key", b
	case 3:
		p := memberlist.KeyValuePair{Key: simnet.RingKey, Codec: ring.GetCodec().CodecID(), Value: []byte{0xff, 0xff, 0xff, 0x01, 0x02}}
		b, _ := p.Marshal()
		return "invalid-snappy", b
	case 4:
		p := memberlist.KeyValuePair{Key: simnet.RingKey, Codec: ring.GetCodec().CodecID(), Value: snappy.Encode(nil, []byte{0x0a, 0xff, 0xff, 0xff, 0xff, 0x0f, 0x01})}
		b, _ := p.Marshal()
		return "valid-snappy-invalid-protobuf", b
	default:
		b := make([]byte, 1+rng.IntN(40))
		for i := range b {
			b[i] = byte(rng.UintN(256))
		}
		return "random-bytes", b
	}
}

// undecodable tells whether the public decoding path rejects the message.
func undecodable(msg []byte) bool {
	k, _, _, _, err := simnet.DecodeMessage(msg)
	return err != nil || k == ""
}

func runCluster(t *testing.T, run *vt.Run, c vt.CaseID, rng *rand.Rand, gossipOnly, rewrites bool) {
	synctest.Test(t, func(t *testing.T) {
		n := 2 + rng.IntN(5)
		kvCfg := simnet.DefaultConfig(time.Hour)
		// watchers notified at once, or collected and flushed every NotifyInterval
		kvCfg.NotifyInterval = []time.Duration{0, 0, 500 * time.Millisecond, 3 * time.Second}[rng.IntN(4)]
		net, err := simnet.New(n, kvCfg)
		if err != nil {
			run.Inconclusive(err.Error())
			return
		}
		defer net.Stop()
		s := &sim{net: net, rng: rng, n: n, group: make([]int, n), stats: map[string]int{}, rewrites: rewrites, onceWritten: map[int]bool{}, notify: kvCfg.NotifyInterval}
		s.line = gossipOnly && rng.IntN(2) == 0
		viol := func(sig, what string, extra map[string]any) {
			d := map[string]any{"nodes": n, "gossip_only": gossipOnly, "journal": tail(s.journal, 120), "stats": s.stats}
			for k, v := range extra {
				d[k] = v
			}
			run.Violation(c, sig, what, d)
		}
		loss := []float64{0, 0.3, 0.9}[rng.IntN(3)]
		steps := 20 + rng.IntN(60)
		for step := 0; step < steps; step++ {
			switch r := rng.IntN(20); {
			case r < 6:
				s.casRing(rng.IntN(n))
			case r < 9:
				s.casPart(rng.IntN(n))
			case r < 14:
				if gossipOnly {
					s.gossipRound(0, true, rng.IntN(2) == 0 && false)
				} else {
					s.gossipRound(loss, rng.IntN(2) == 0, true)
				}
			case r == 14 && !gossipOnly:
				a, b := rng.IntN(n), rng.IntN(n)
				if a != b && s.group[a] == s.group[b] {
					net.PushPullJoin(a, b, rng.IntN(3) == 0) // a third as the exchange of a joining node
					synctest.Wait()
					s.stats["pushpull"]++
					s.log("r%d push/pull n%d<->n%d", s.round, a, b)
				}
			case r == 15 && !gossipOnly:
				if rng.IntN(2) == 0 {
					for i := range s.group {
						s.group[i] = rng.IntN(2)
					}
					s.log("r%d partition %v", s.round, s.group)
				} else {
					for i := range s.group {
						s.group[i] = 0
					}
					s.log("r%d heal", s.round)
				}
			case r == 16 && !gossipOnly && rng.IntN(3) == 0:
				i := rng.IntN(n)
				// a restarted node loses its state and its locally acknowledged writes that never left it
				var keep []acked
				for _, a := range s.acks {
					if a.Node != i {
						keep = append(keep, a)
					}
				}
				// writes of node i may survive on peers, but are no longer guaranteed
				s.acks = keep
				for _, w := range s.watchers {
					if w.node == i {
						w.cancel()
					}
				}
				if s.onceWritten[i] {
					// the node's write-once entry may die with it after it already made this node strip the
					// contended token from another claimant's entry (and re-gossip that entry): the known finding
					s.contendedLost = true
				}
				if err := net.Restart(i); err != nil {
					run.Inconclusive(err.Error())
					return
				}
				s.stats["restarts"]++
				s.log("r%d restart n%d", s.round, i)
				time.Sleep(2 * time.Second) // a restart is not instantaneous: the new incarnation writes with later stamps
			case r == 17:
				s.addWatcher()
			case r == 18 && !gossipOnly && len(s.pool) > 0:
				// malformed message to a random node: must be inert
				j := rng.IntN(n)
				kind, bad := corrupt(rng, s.pool[rng.IntN(len(s.pool))])
				if !undecodable(bad) {
					break
				}
				synctest.Wait()
				if rng.IntN(3) == 0 {
					// a real full-state dump of another node cut short (a broken push/pull stream): complete
					// pairs in front of the cut may be merged, the cut pair must be dropped, nothing may crash
					full := net.Nodes[rng.IntN(n)].KV.LocalState(false)
					if len(full) > 0 {
						cut := rng.IntN(len(full))
						if rng.IntN(2) == 0 && len(full) > 6 {
							cut = len(full) - 1 - rng.IntN(6)
						}
						var pn any
						func() {
							defer func() { pn = recover() }()
							net.Nodes[j].KV.MergeRemoteState(append([]byte(nil), full[:cut]...), false)
						}()
						synctest.Wait()
						s.stats["truncated_states_injected"]++
						if pn != nil {
							viol("malformed/panic", fmt.Sprintf("a full state truncated to %d of %d bytes crashed the node: %v", cut, len(full), pn), nil)
						}
					}
					break
				}
				before := net.StateCanon(j)
				var pn any
				func() {
					defer func() { pn = recover() }()
					if rng.IntN(2) == 0 {
						net.Nodes[j].KV.NotifyMsg(bad)
					} else {
						buf := make([]byte, 4)
						binary.BigEndian.PutUint32(buf, uint32(len(bad)))
						net.Nodes[j].KV.MergeRemoteState(append(buf, bad...), false)
						kind += "/in-full-state"
					}
				}()
				synctest.Wait()
				after := net.StateCanon(j)
				s.stats["malformed_injected"]++
				if pn != nil {
					viol("malformed/panic", fmt.Sprintf("a %s message crashed the node: %v", kind, pn), nil)
				}
				if before != after {
					viol("malformed/changed-state/"+strings.Split(kind, "/")[0], "a malformed ("+kind+") message changed the stored state", map[string]any{"before": before, "after": after})
				}
			default:
				time.Sleep(time.Duration(1+rng.IntN(20)) * time.Second)
			}
			if rng.IntN(4) == 0 {
				time.Sleep(time.Duration(1+rng.IntN(3)) * time.Second)
			}
			synctest.Wait()
		}
		// ---- bounded recovery
		for i := range s.group {
			s.group[i] = 0
		}
		for _, d := range s.delayed {
			net.Deliver(d.to, d.msg)
		}
		s.delayed = nil
		synctest.Wait()
		if !gossipOnly {
			for i := 0; i+1 < n; i++ {
				net.PushPull(i, i+1)
				synctest.Wait()
			}
			for i := n - 1; i > 0; i-- {
				net.PushPull(i, i-1)
				synctest.Wait()
			}
		}
		for r := 0; r < 12+n; r++ {
			s.gossipRound(0, true, false)
		}
		synctest.Wait()
		time.Sleep(time.Second + 2*s.notify)
		synctest.Wait()
		// ---- judgement
		for _, key := range []string{simnet.RingKey, simnet.PartKey} {
			ref := net.Visible(0, key)
			if strings.Contains(ref, "LEFT") || strings.Contains(ref, "Deleted") {
				viol("tombstone-visible", "a reader sees a tombstone", map[string]any{"key": key, "value": ref})
			}
			for j := 1; j < n; j++ {
				if v := net.Visible(j, key); v != ref {
					sig := "divergence-after-recovery"
					if (rewrites || s.contendedLost) && key == simnet.RingKey && stripPool(v) == stripPool(ref) {
						// the nodes differ only in who holds a token that two instances claimed and one of the
						// claimants was rewritten or removed afterwards
						sig = "divergence/contended-token-after-claimant-rewritten"
					} else if gossipOnly {
						sig = "divergence-after-lossless-gossip"
						if s.line {
							sig += "/relay-topology"
						}
					}
					viol(sig, fmt.Sprintf("nodes n0 and n%d expose different values for %q after the bounded recovery", j, key), map[string]any{"key": key, "n0": ref, fmt.Sprintf("n%d", j): v})
					break
				}
			}
		}
		// acknowledged writes are dominated everywhere (full state, tombstones included)
		for j := 0; j < n; j++ {
			st, err := simnet.DecodeState(net.Nodes[j].KV.LocalState(false))
			if err != nil {
				viol("state-undecodable", err.Error(), nil)
				continue
			}
			for _, a := range s.acks {
				if !dominated(st, a) {
					viol("acknowledged-write-lost", fmt.Sprintf("CAS acknowledged on n%d (%s %s ts=%d removed=%v) is not reflected by n%d after recovery", a.Node, a.Key, a.Entry, a.TS, a.Left, j), map[string]any{"state": net.StateCanon(j)})
					break
				}
			}
		}
		// watchers ended on the final value
		for _, w := range s.watchers {
			if w.inc != net.Nodes[w.node].Incarnation {
				continue
			}
			w.mu.Lock()
			last, calls := w.last, w.calls
			w.mu.Unlock()
			fin := net.Visible(w.node, w.key)
			if calls == 0 {
				// never called: fine only if the node's value is what it was when the watcher registered
				if fin != w.atReg {
					s.stats["watchers_checked"]++
					viol("watcher-never-called", fmt.Sprintf("watcher of %q on n%d (prefix watcher: %v) was never called although the node's value changed after it registered", w.key, w.node, w.prefix), map[string]any{"at_registration": w.atReg, "final": fin, "notify_interval": s.notify.String()})
				}
				continue
			}
			s.stats["watchers_checked"]++
			if last != fin {
				viol("watcher-stale", fmt.Sprintf("watcher of %q on n%d last saw a value that differs from the node's final value", w.key, w.node), map[string]any{"last_seen": last, "final": fin, "calls": calls})
			}
			w.cancel()
		}
		for _, w := range s.watchers {
			w.cancel()
		}
		synctest.Wait()
		// Invalidates over pairs of broadcasts seen in this run
		type bc struct {
			key     string
			content []string
		}
		var bcs []bc
		for _, m := range s.pool {
			if len(bcs) >= 25 {
				break
			}
			k, _, v, _, err := simnet.DecodeMessage(m)
			if err != nil {
				continue
			}
			if mg, ok := v.(memberlist.Mergeable); ok {
				bcs = append(bcs, bc{k, mg.MergeContent()})
			}
		}
		for _, nw := range bcs {
			for _, old := range bcs {
				for _, vers := range [][2]uint{{5, 3}, {3, 5}, {4, 4}} {
					got := memberlist.VerifInvalidates(nw.key, nw.content, vers[0], old.key, old.content, vers[1])
					s.stats["invalidates_pairs"]++
					if got && (nw.key != old.key || !superset(nw.content, old.content)) {
						viol("invalidates-without-containing", "a broadcast is reported to supersede another one whose content it does not contain", map[string]any{"new": nw, "old": old, "versions": vers})
					}
				}
			}
		}
		for k, v := range s.stats {
			run.Count(k, int64(v))
		}
		run.EvalH(vt.Hash64(strings.Join(s.journal, ";")), len(s.acks) > 1)
		run.Distinct("sched|" + fmt.Sprint(s.stats))
		if len(s.acks) > 3 && run.WantSample() {
			run.Sample(map[string]any{"nodes": n, "gossip_only": gossipOnly, "loss": loss, "stats": s.stats, "journal_head": tail(s.journal, 25)})
		}
	})
}

func superset(a, b []string) bool {
	m := map[string]bool{}
	for _, x := range a {
		m[x] = true
	}
	for _, x := range b {
		if !m[x] {
			return false
		}
	}
	return true
}

func tail(s []string, n int) []string {
	if len(s) > n {
		return s[len(s)-n:]
	}
	return s
}

func dominated(st map[string]interface{}, a acked) bool {
	v := st[a.Key]
	switch a.Key {
	case simnet.RingKey:
		d, _ := v.(*ring.Desc)
		if d == nil {
			return false
		}
		e, ok := d.Ingesters[a.Entry]
		if !ok {
			return false
		}
		return e.Timestamp > a.TS || (e.Timestamp == a.TS && (!a.Left || e.State == ring.LEFT))
	default:
		d, _ := v.(*ring.PartitionRingDesc)
		if d == nil {
			return false
		}
		if strings.HasPrefix(a.Entry, "L") {
			var pid int32
			fmt.Sscanf(a.Entry, "L%d", &pid)
			p, ok := d.Partitions[pid]
			return ok && p.StateChangeLockedTimestamp >= a.TS
		}
		if strings.HasPrefix(a.Entry, "P") {
			var pid int32
			fmt.Sscanf(a.Entry, "P%d", &pid)
			p, ok := d.Partitions[pid]
			return ok && p.StateTimestamp >= a.TS
		}
		o, ok := d.Owners[strings.TrimPrefix(a.Entry, "O")]
		if !ok {
			return false
		}
		return o.UpdatedTimestamp > a.TS || (o.UpdatedTimestamp == a.TS && (!a.Left || o.State == ring.OwnerDeleted))
	}
}

// directedContended is the shortest history of the known finding: a and b claim token 900000 (a wins, lower id),
// a is rewritten without it; n1 merges a, b, a' and n0 merges a' before b. Every message is delivered, then
// push/pull runs both ways.
func directedContended(t *testing.T, run *vt.Run, c vt.CaseID) {
	synctest.Test(t, func(t *testing.T) {
		net, err := simnet.New(2, simnet.DefaultConfig(time.Hour))
		if err != nil {
			run.Inconclusive(err.Error())
			return
		}
		defer net.Stop()
		put := func(node int, id string, tokens ...uint32) {
			cl := net.Client(node, ring.GetCodec())
			if err := cl.CAS(context.Background(), simnet.RingKey, func(in interface{}) (interface{}, bool, error) {
				d := ring.GetOrCreateRingDesc(in)
				now := time.Now().Unix()
				d.Ingesters[id] = ring.InstanceDesc{Id: id, Addr: id, Zone: "z", State: ring.ACTIVE, Timestamp: now, RegisteredTimestamp: now, Tokens: tokens}
				return d, false, nil
			}); err != nil {
				run.Inconclusive("directed CAS failed: " + err.Error())
			}
			synctest.Wait()
			time.Sleep(2 * time.Second)
		}
		put(0, "a", 1, 900000)
		msgA := net.Collect(0)
		put(1, "b", 2, 900000)
		msgB := net.Collect(1)
		for _, m := range msgA { // n1: a then b -> b loses 900000 in n1's stored state
			net.Deliver(1, m)
		}
		synctest.Wait()
		put(0, "a", 1) // a' gives the token up
		msgA2 := net.Collect(0)
		for _, m := range msgB { // n0 holds a' only: b keeps 900000
			net.Deliver(0, m)
		}
		for _, m := range msgA2 {
			net.Deliver(1, m)
		}
		synctest.Wait()
		for r := 0; r < 6; r++ {
			for i := 0; i < 2; i++ {
				for _, m := range net.Collect(i) {
					net.Deliver(1-i, m)
				}
			}
			synctest.Wait()
		}
		net.PushPull(0, 1)
		synctest.Wait()
		net.PushPull(1, 0)
		synctest.Wait()
		v0, v1 := net.Visible(0, simnet.RingKey), net.Visible(1, simnet.RingKey)
		run.EvalH(vt.Hash64("directed-contended"), true)
		if v0 != v1 {
			sig := "divergence-after-recovery"
			if stripPool(v0) == stripPool(v1) {
				sig = "divergence/contended-token-after-claimant-rewritten"
			}
			run.Violation(c, sig, "nodes n0 and n1 expose different values for \"ring\" after every message was delivered and push/pull ran both ways (directed history a{t}, b{t}, a'{})", map[string]any{"n0": v0, "n1": v1})
		}
	})
}

// truncations: every prefix of a sender's full state goes to one receiver; nothing may crash, and after the intact
// state the receiver shows what the sender shows.
func truncations(t *testing.T, run *vt.Run, c vt.CaseID, rng *rand.Rand) {
	synctest.Test(t, func(t *testing.T) {
		net, err := simnet.New(2, simnet.DefaultConfig(time.Hour))
		if err != nil {
			run.Inconclusive(err.Error())
			return
		}
		defer net.Stop()
		s := &sim{net: net, rng: rng, n: 2, group: make([]int, 2), stats: map[string]int{}, onceWritten: map[int]bool{}}
		for k := 1 + rng.IntN(5); k > 0; k-- {
			if rng.IntN(3) == 0 {
				s.casPart(0)
			} else {
				s.casRing(0)
			}
			time.Sleep(time.Second)
			synctest.Wait()
		}
		full := net.Nodes[0].KV.LocalState(false)
		for cut := 0; cut <= len(full); cut++ {
			var pn any
			func() {
				defer func() { pn = recover() }()
				net.Nodes[1].KV.MergeRemoteState(append(make([]byte, 0, cut+rng.IntN(3)), full[:cut]...), false)
			}()
			run.EvalH(vt.Mix(uint64(c.Idx), uint64(cut), 77), cut > 0 && cut < len(full))
			if pn != nil {
				run.Violation(c, "malformed/panic", fmt.Sprintf("a full state truncated to %d of %d bytes crashed the node: %v", cut, len(full), pn), map[string]any{"cut": cut, "length": len(full), "journal": s.journal})
				return
			}
		}
		synctest.Wait()
		run.Count("truncated_states_injected", int64(len(full)+1))
		for _, key := range []string{simnet.RingKey, simnet.PartKey} {
			if a, b := net.Visible(0, key), net.Visible(1, key); a != b {
				run.Violation(c, "truncations/receiver-differs-after-intact-state", "after every prefix and the intact full state the receiver shows another value than the sender", map[string]any{"key": key, "sender": a, "receiver": b})
			}
		}
	})
}

// hostileKeys: well-formed frames whose key is hostile (bytes that are not valid UTF-8 - malformed for a protobuf string
// field -, NUL and control bytes, a very long key, a key nobody uses) carrying a real, decodable value, through the full
// state path (synchronous: a panic is caught here) and through NotifyMsg (asynchronous: a panic kills the process and is
// attributed to this case by the crash journal). The node must survive, and what it shows for the keys in use must
// not change. Whether such a pair is stored under its odd key is the implementation's business.
func hostileKeys(t *testing.T, run *vt.Run, c vt.CaseID, rng *rand.Rand) {
	synctest.Test(t, func(t *testing.T) {
		net, err := simnet.New(2, simnet.DefaultConfig(time.Hour))
		if err != nil {
			run.Inconclusive(err.Error())
			return
		}
		defer net.Stop()
		s := &sim{net: net, rng: rng, n: 2, group: make([]int, 2), stats: map[string]int{}, onceWritten: map[int]bool{}}
		for k := 1 + rng.IntN(3); k > 0; k-- {
			s.casRing(0)
			s.casPart(0)
			time.Sleep(time.Second)
			synctest.Wait()
		}
		net.Nodes[1].KV.MergeRemoteState(net.Nodes[0].KV.LocalState(false), false)
		synctest.Wait()
		var pairs []memberlist.KeyValuePair
		full := net.Nodes[0].KV.LocalState(false)
		for len(full) > 4 {
			l := int(binary.BigEndian.Uint32(full))
			var p memberlist.KeyValuePair
			if 4+l > len(full) || p.Unmarshal(full[4:4+l]) != nil {
				break
			}
			pairs = append(pairs, p)
			full = full[4+l:]
		}
		if len(pairs) == 0 {
			run.Inconclusive("no pairs in the sender's full state")
			return
		}
		keys := []string{"ri\xffng", "\xc3\x28", "\xed\xa0\x80", "ring\x00", "\x00", "a\nb", strings.Repeat("k", 70000), "nobody-uses-this-key", simnet.RingKey + "\xfe"}
		key := keys[int(c.Idx)%len(keys)]
		p := pairs[rng.IntN(len(pairs))]
		p.Key = key
		bad, _ := p.Marshal()
		j := rng.IntN(2)
		before := map[string]string{simnet.RingKey: net.Visible(j, simnet.RingKey), simnet.PartKey: net.Visible(j, simnet.PartKey)}
		viaFull := (int(c.Idx)/len(keys))%2 == 0
		det := map[string]any{"key": fmt.Sprintf("%q", key[:min(len(key), 40)]), "key_length": len(key), "valid_utf8": utf8.ValidString(key), "through_full_state": viaFull, "node": j}
		var pn any
		func() {
			defer func() { pn = recover() }()
			if viaFull {
				buf := make([]byte, 4)
				binary.BigEndian.PutUint32(buf, uint32(len(bad)))
				net.Nodes[j].KV.MergeRemoteState(append(buf, bad...), false)
			} else {
				net.Nodes[j].KV.NotifyMsg(bad)
			}
		}()
		synctest.Wait()
		time.Sleep(2 * time.Second)
		synctest.Wait()
		run.EvalH(vt.Mix(uint64(int(c.Idx)%(2*len(keys))), 5, 5), true)
		run.Count("hostile_keys_injected", 1)
		if pn != nil {
			sig := "malformed/panic/hostile-key"
			if !utf8.ValidString(key) {
				sig = "malformed/panic/key-not-utf8"
			}
			run.Violation(c, sig, fmt.Sprintf("a well-formed frame with a hostile key crashed the node: %v", pn), det)
			return
		}
		for k, b := range before {
			if a := net.Visible(j, k); a != b {
				det["before"], det["after"] = b, a
				run.Violation(c, "malformed/hostile-key-changed-another-key", "a frame under a hostile key changed what the node shows for "+k, det)
			}
		}
		// the node still works: a later write on it is acknowledged and shown
		s.casRing(j)
		synctest.Wait()
	})
}

// freshBurst: a node that does not hold the key yet receives, back to back, messages that change nothing (an empty
// descriptor; a descriptor holding only a tombstone older than the retention) and then a real update, all through
// NotifyMsg before the per-key worker has gone through them; after quiescence it must show the update.
func freshBurst(t *testing.T, run *vt.Run, c vt.CaseID, rng *rand.Rand) {
	synctest.Test(t, func(t *testing.T) {
		cfg := simnet.DefaultConfig(30 * time.Second) // short retention: an old tombstone merges to nothing
		net, err := simnet.New(2, cfg)
		if err != nil {
			run.Inconclusive(err.Error())
			return
		}
		defer net.Stop()
		enc := func(d *ring.Desc) []byte {
			b, err := ring.GetCodec().Encode(d)
			if err != nil {
				return nil
			}
			kvp := memberlist.KeyValuePair{Key: simnet.RingKey, Codec: ring.GetCodec().CodecID(), Value: b}
			m, _ := kvp.Marshal()
			return m
		}
		now := time.Now().Unix()
		empty := enc(ring.NewDesc())
		old := ring.NewDesc()
		old.Ingesters["gone"] = ring.InstanceDesc{Id: "gone", Addr: "gone", State: ring.LEFT, Timestamp: now - 3600}
		oldTomb := enc(old)
		real := ring.NewDesc()
		real.Ingesters["ing-1"] = ring.InstanceDesc{Id: "ing-1", Addr: "ing-1", Zone: "z", State: ring.ACTIVE, Timestamp: now, RegisteredTimestamp: now, Tokens: []uint32{1, 2, 3}}
		realMsg := enc(real)
		if empty == nil || oldTomb == nil || realMsg == nil {
			run.Inconclusive("could not encode the burst messages")
			return
		}
		var burst [][]byte
		for k := 1 + rng.IntN(4); k > 0; k-- {
			burst = append(burst, [][]byte{empty, oldTomb}[rng.IntN(2)])
		}
		burst = append(burst, realMsg)
		for _, m := range burst {
			net.Deliver(1, m) // no waiting in between
		}
		synctest.Wait()
		time.Sleep(time.Second)
		synctest.Wait()
		run.EvalH(vt.Mix(uint64(c.Idx), uint64(len(burst)), 91), true)
		if v := net.Visible(1, simnet.RingKey); !strings.Contains(v, "ing-1{") {
			run.Violation(c, "delivered-update-lost/fresh-key-burst", "a node that received an update for a key it did not hold yet, right behind messages that change nothing, does not show the update", map[string]any{"burst_length": len(burst), "visible": v})
		}
	})
}

// staleTombstone: every node holds the ring; one node receives a delayed message that only carries a tombstone older
// than the retention. Such a tombstone is dropped by every node, so it must not be gossiped on: after a few lossless
// rounds every broadcast queue is empty and no watcher fired for an unchanged value.
func staleTombstone(t *testing.T, run *vt.Run, c vt.CaseID, rng *rand.Rand) {
	synctest.Test(t, func(t *testing.T) {
		n := 3 + rng.IntN(3)
		net, err := simnet.New(n, simnet.DefaultConfig(30*time.Second))
		if err != nil {
			run.Inconclusive(err.Error())
			return
		}
		defer net.Stop()
		s := &sim{net: net, rng: rng, n: n, group: make([]int, n), stats: map[string]int{}, onceWritten: map[int]bool{}}
		for i := 0; i < n; i++ {
			s.casRing(i)
			time.Sleep(time.Second)
			synctest.Wait()
		}
		for r := 0; r < 10; r++ {
			s.gossipRound(0, true, false)
		}
		for i := 0; i+1 < n; i++ {
			net.PushPull(i, i+1)
			synctest.Wait()
		}
		for r := 0; r < 10; r++ {
			s.gossipRound(0, true, false)
		}
		synctest.Wait()
		before := make([]string, n)
		for i := range before {
			before[i] = net.Visible(i, simnet.RingKey)
		}
		calls := make([]int, n)
		ctx, cancel := context.WithCancel(context.Background())
		defer cancel()
		var mu sync.Mutex
		for i := 0; i < n; i++ {
			i := i
			go net.Client(i, ring.GetCodec()).WatchKey(ctx, simnet.RingKey, func(interface{}) bool { mu.Lock(); calls[i]++; mu.Unlock(); return true })
		}
		synctest.Wait()
		old := ring.NewDesc()
		old.Ingesters["gone"] = ring.InstanceDesc{Id: "gone", Addr: "gone", State: ring.LEFT, Timestamp: time.Now().Unix() - 3600}
		b, _ := ring.GetCodec().Encode(old)
		kvp := memberlist.KeyValuePair{Key: simnet.RingKey, Codec: ring.GetCodec().CodecID(), Value: b}
		msg, _ := kvp.Marshal()
		net.Deliver(rng.IntN(n), msg)
		synctest.Wait()
		sent := 0
		for r := 0; r < 20; r++ {
			for i := 0; i < n; i++ {
				for _, m := range net.Collect(i) {
					sent++
					for j := 0; j < n; j++ {
						if j != i {
							net.Deliver(j, m)
						}
					}
				}
			}
			synctest.Wait()
		}
		run.EvalH(vt.Mix(uint64(c.Idx), uint64(n), 93), true)
		for i := 0; i < n; i++ {
			l, g := net.Nodes[i].KV.VerifQueuedBroadcasts()
			if l+g > 0 {
				run.Violation(c, "never-quiescent/stale-tombstone-regossiped", fmt.Sprintf("20 lossless rounds after one message carrying only a tombstone older than the retention, n%d still has %d broadcasts queued (%d messages sent meanwhile)", i, l+g, sent), nil)
				return
			}
			if v := net.Visible(i, simnet.RingKey); v != before[i] {
				run.Violation(c, "stale-tombstone-changed-value", "a tombstone older than the retention changed what a node shows", map[string]any{"before": before[i], "after": v})
			}
		}
		mu.Lock()
		defer mu.Unlock()
		for i, k := range calls {
			if k > 0 {
				run.Violation(c, "watcher-called-without-change", fmt.Sprintf("the watcher on n%d was called %d times although the value never changed", i, k), nil)
				return
			}
		}
	})
}

func TestC06(t *testing.T) {
	run := vt.NewRun("C06", "fault_enumeration")
	run.SetRule("case = one seeded adversarial schedule on 2-6 gossip KV nodes detached from the transport (verif hook), inside a synctest bubble: acknowledged CAS on the instance ring and the partition ring on any node, gossip rounds where the adversary decides per (message, destination) deliver / drop (p in {0,.3,.9}) / duplicate / delay and reorder / block by partition, push/pull exchanges, partitions and heals, node restarts, watcher registration, malformed messages (only ones the public codec rejects), virtual time advances; then a bounded recovery (all delayed messages, 2(N-1) push/pull exchanges along a chain, 12 lossless full-fan-out gossip rounds) and the judgement: all nodes expose the same value per key, every acknowledged CAS is dominated by every node's stored state, every watcher (key and prefix watchers; nodes notify at once or every NotifyInterval in {0.5 s, 3 s}) has been called if the node's value changed after it registered and its last value is the node's final value, Invalidates(new, old) only when new contains old, malformed messages leave the stored state unchanged and do not crash. A second mode runs lossless full-fan-out gossip only (no push/pull) where divergence would reveal lost queue entries. non-trivial = more than one acknowledged CAS; distinct by journal; distinct fault-statistics vectors counted.")
	run.Assume("tombstone retention (1 h) is longer than any schedule, so late stale deliveries cannot legitimately resurrect entries")
	run.ForEachT(t, "adversarial", vt.N(700, 25000), func(t *testing.T, c vt.CaseID, rng *rand.Rand, s *vt.Slot) {
		s.Enter(c, "crash/adversarial")
		runCluster(t, run, c, rng, false, false)
		s.Leave()
	})
	run.ForEachT(t, "gossip-only", vt.N(500, 15000), func(t *testing.T, c vt.CaseID, rng *rand.Rand, s *vt.Slot) {
		s.Enter(c, "crash/gossip-only")
		runCluster(t, run, c, rng, true, false)
		s.Leave()
	})
	run.ForEachT(t, "fresh-burst", vt.N(300, 8000), func(t *testing.T, c vt.CaseID, rng *rand.Rand, s *vt.Slot) {
		s.Enter(c, "crash/fresh-burst")
		freshBurst(t, run, c, rng)
		s.Leave()
	})
	run.ForEachT(t, "stale-tombstone", vt.N(60, 1500), func(t *testing.T, c vt.CaseID, rng *rand.Rand, s *vt.Slot) {
		s.Enter(c, "crash/stale-tombstone")
		staleTombstone(t, run, c, rng)
		s.Leave()
	})
	run.ForEachT(t, "hostile-keys", vt.N(36, 360), func(t *testing.T, c vt.CaseID, rng *rand.Rand, s *vt.Slot) {
		s.Enter(c, "cluster/hostile-keys")
		hostileKeys(t, run, c, rng)
		s.Leave()
	})
	run.ForEachT(t, "truncations", vt.N(40, 1500), func(t *testing.T, c vt.CaseID, rng *rand.Rand, s *vt.Slot) {
		s.Enter(c, "crash/truncations")
		truncations(t, run, c, rng)
		s.Leave()
	})
	// token conflicts between entries that are rewritten or removed later (a known finding: the stored
	// resolution is destructive, so the outcome depends on the order in which a node saw the versions);
	// every other judgement applies unchanged, and a divergence in anything but the holder of a
	// contended token is reported as usual
	run.ForEachT(t, "contended-rewrites", vt.N(120, 3000), func(t *testing.T, c vt.CaseID, rng *rand.Rand, s *vt.Slot) {
		s.Enter(c, "crash/contended-rewrites")
		if c.Idx == 0 {
			directedContended(t, run, c)
		} else {
			runCluster(t, run, c, rng, c.Idx%2 == 0, true)
		}
		s.Leave()
	})
	_ = sort.Strings
	run.Finish(t)
}

// TestC06Race: writers, gossip pumps, push/pull and watchers run as real concurrent goroutines
// (race detector on); after they stop, the bounded recovery and the same judgement apply.
func TestC06Race(t *testing.T) {
	run := vt.NewRun("C06", "fault_enumeration")
	run.SetRule("concurrent mode under the race detector: one writer goroutine and one gossip-pump goroutine per node plus a push/pull goroutine and watchers run truly concurrently for a bounded number of operations; then the bounded recovery and the agreement / domination / watcher judgement.")
	run.ForEachT(t, "concurrent", vt.N(150, 3000), func(t *testing.T, c vt.CaseID, rng *rand.Rand, sl *vt.Slot) {
		sl.Enter(c, "crash/concurrent")
		defer sl.Leave()
		synctest.Test(t, func(t *testing.T) {
			n := 2 + rng.IntN(4)
			net, err := simnet.New(n, simnet.DefaultConfig(time.Hour))
			if err != nil {
				run.Inconclusive(err.Error())
				return
			}
			defer net.Stop()
			var mu sync.Mutex
			var acks []acked
			var wg sync.WaitGroup
			stop := make(chan struct{})
			seeds := make([]uint64, n)
			for i := range seeds {
				seeds[i] = rng.Uint64()
			}
			for i := 0; i < n; i++ {
				wg.Add(1)
				go func(i int) { // writer on node i
					defer wg.Done()
					r := rand.New(rand.NewPCG(seeds[i], 1))
					cl := net.Client(i, ring.GetCodec())
					for k := 0; k < 25; k++ {
						id := fmt.Sprintf("w%d-%d", i, r.IntN(3))
						var a acked
						err := cl.CAS(context.Background(), simnet.RingKey, func(in interface{}) (interface{}, bool, error) {
							d := ring.GetOrCreateRingDesc(in)
							now := time.Now().Unix()
							if _, ok := d.Ingesters[id]; ok && r.IntN(6) == 0 {
								delete(d.Ingesters, id)
								a = acked{i, simnet.RingKey, id, now, true}
							} else {
								d.Ingesters[id] = ring.InstanceDesc{Id: id, Addr: id, State: ring.ACTIVE, Timestamp: now, Tokens: []uint32{uint32(i*1000 + k)}}
								a = acked{i, simnet.RingKey, id, now, false}
							}
							return d, true, nil
						})
						if err == nil {
							mu.Lock()
							acks = append(acks, a)
							mu.Unlock()
						}
						time.Sleep(time.Duration(r.IntN(1500)) * time.Millisecond)
					}
				}(i)
				wg.Add(1)
				go func(i int) { // gossip pump of node i
					defer wg.Done()
					r := rand.New(rand.NewPCG(seeds[i], 2))
					for {
						select {
						case <-stop:
							return
						default:
						}
						for _, m := range net.Collect(i) {
							for j := 0; j < n; j++ {
								if j != i && r.IntN(4) != 0 {
									net.Deliver(j, m)
								}
							}
						}
						time.Sleep(time.Duration(50+r.IntN(200)) * time.Millisecond)
					}
				}(i)
			}
			var ws []*watcher
			for i := 0; i < n; i++ {
				w := &watcher{node: i, key: simnet.RingKey}
				ctx, cancel := context.WithCancel(context.Background())
				w.cancel = cancel
				ws = append(ws, w)
				go net.Client(i, ring.GetCodec()).WatchKey(ctx, simnet.RingKey, func(v interface{}) bool {
					w.mu.Lock()
					w.last = simnet.Canon(v, true)
					w.calls++
					w.mu.Unlock()
					return true
				})
			}
			ppDone := make(chan struct{})
			go func() { // push/pull between random pairs
				defer close(ppDone)
				r := rand.New(rand.NewPCG(seeds[0], 3))
				for {
					select {
					case <-stop:
						return
					default:
					}
					a, b := r.IntN(n), r.IntN(n)
					if a != b {
						net.PushPull(a, b)
					}
					time.Sleep(time.Duration(500+r.IntN(1500)) * time.Millisecond)
				}
			}()
			// writers finish on their own; then stop the pumps
			time.Sleep(50 * time.Second)
			close(stop)
			wg.Wait()
			<-ppDone
			synctest.Wait()
			for i := 0; i+1 < n; i++ {
				net.PushPull(i, i+1)
				synctest.Wait()
			}
			for i := n - 1; i > 0; i-- {
				net.PushPull(i, i-1)
				synctest.Wait()
			}
			for r := 0; r < 12; r++ {
				for i := 0; i < n; i++ {
					for _, m := range net.Collect(i) {
						for j := 0; j < n; j++ {
							if j != i {
								net.Deliver(j, m)
							}
						}
					}
				}
				synctest.Wait()
			}
			time.Sleep(time.Second)
			synctest.Wait()
			viol := func(sig, what string, extra map[string]any) {
				d := map[string]any{"nodes": n, "acknowledged": len(acks)}
				for k, v := range extra {
					d[k] = v
				}
				run.Violation(c, "concurrent/"+sig, what, d)
			}
			ref := net.Visible(0, simnet.RingKey)
			for j := 1; j < n; j++ {
				if v := net.Visible(j, simnet.RingKey); v != ref {
					viol("divergence-after-recovery", fmt.Sprintf("n0 and n%d differ after recovery", j), map[string]any{"n0": ref, fmt.Sprintf("n%d", j): v})
					break
				}
			}
			for j := 0; j < n; j++ {
				st, err := simnet.DecodeState(net.Nodes[j].KV.LocalState(false))
				if err != nil {
					continue
				}
				for _, a := range acks {
					if !dominated(st, a) {
						viol("acknowledged-write-lost", fmt.Sprintf("CAS acknowledged on n%d (%s ts=%d removed=%v) not reflected by n%d", a.Node, a.Entry, a.TS, a.Left, j), map[string]any{"state": net.StateCanon(j)})
						break
					}
				}
			}
			for _, w := range ws {
				w.mu.Lock()
				last, calls := w.last, w.calls
				w.mu.Unlock()
				if calls > 0 {
					if fin := net.Visible(w.node, w.key); fin != last {
						viol("watcher-stale", fmt.Sprintf("watcher on n%d ended on a value that differs from the node's final value", w.node), map[string]any{"last_seen": last, "final": fin})
					}
				}
				w.cancel()
			}
			synctest.Wait()
			run.Count("concurrent_cas_acked", int64(len(acks)))
			run.EvalH(vt.Mix(uint64(c.Idx), uint64(len(acks)), 606), len(acks) > 1)
		})
	})
	run.Finish(t)
}
