package c12

import (
	"fmt"
	"math/rand/v2"
	"sort"
	"strings"
	"testing"
	"testing/synctest"
	"time"

	"github.com/grafana/dskit/ring"

	"verifharness/rk"
	"verifharness/vt"
)

type inst struct {
	ID         string   `json:"id"`
	Zone       string   `json:"zone"`
	Tokens     []uint32 `json:"-"`
	NTokens    int      `json:"tokens"`
	ReadOnly   bool     `json:"read_only"`
	ReadOnlyTS int64    `json:"read_only_ts"`
	RegTS      int64    `json:"registered_ts"`
}

type content map[string]inst

func (c content) clone() content {
	o := content{}
	for k, v := range c {
		o[k] = v
	}
	return o
}

func (c content) desc(now int64) *ring.Desc {
	d := ring.NewDesc()
	for id, in := range c {
		d.Ingesters[id] = ring.InstanceDesc{Id: id, Addr: "addr-" + id, Zone: in.Zone, Tokens: append([]uint32(nil), in.Tokens...), State: ring.ACTIVE,
			Timestamp: now, RegisteredTimestamp: in.RegTS, ReadOnly: in.ReadOnly, ReadOnlyUpdatedTimestamp: in.ReadOnlyTS}
	}
	return d
}

func (c content) sig() string {
	ids := make([]string, 0, len(c))
	for id := range c {
		ids = append(ids, id)
	}
	sort.Strings(ids)
	var b strings.Builder
	for _, id := range ids {
		in := c[id]
		fmt.Fprintf(&b, "%s/%s/%d/%v/%d/%d;", id, in.Zone, len(in.Tokens), in.ReadOnly, in.ReadOnlyTS, in.RegTS)
		if len(in.Tokens) > 0 {
			fmt.Fprintf(&b, "%d", in.Tokens[0])
		}
	}
	return b.String()
}

type tokenPool struct{ used map[uint32]bool }

func (p *tokenPool) take(rng *rand.Rand, n int) []uint32 {
	var t []uint32
	for len(t) < n {
		x := rng.Uint32()
		if !p.used[x] {
			p.used[x] = true
			t = append(t, x)
		}
	}
	sort.Slice(t, func(i, j int) bool { return t[i] < t[j] })
	return t
}

// freshRing starts a real ring client on the content (inside a bubble).
func freshRing(c content, zoneAware bool, cacheOff bool) (*ring.Ring, func(), error) {
	st := rk.NewStore()
	st.RecordGets = false
	st.Put("harness", rk.Key, c.desc(time.Now().Unix()))
	cfg := rk.Cfg(3, zoneAware, 24*time.Hour)
	cfg.SubringCacheDisabled = cacheOff
	return rk.StartRing(cfg, st.Client("ring"), rk.Key)
}

func members(r ring.ReadRing) []string {
	rs, err := r.GetAllHealthy(ring.Reporting)
	if err != nil {
		return nil
	}
	return rk.IDs(rs)
}

func setOf(s []string) map[string]bool {
	m := map[string]bool{}
	for _, x := range s {
		m[x] = true
	}
	return m
}

func diff(a, b []string) (onlyA, onlyB []string) {
	sa, sb := setOf(a), setOf(b)
	for _, x := range a {
		if !sb[x] {
			onlyA = append(onlyA, x)
		}
	}
	for _, x := range b {
		if !sa[x] {
			onlyB = append(onlyB, x)
		}
	}
	return
}

func randomContent(rng *rand.Rand, pool *tokenPool, maxInst int) (content, []string) {
	n := 1 + rng.IntN(maxInst)
	nz := 1 + rng.IntN(4)
	var zones []string
	for z := 0; z < nz; z++ {
		zones = append(zones, fmt.Sprintf("z%d", z))
	}
	c := content{}
	for i := 0; i < n; i++ {
		nt := 1 + rng.IntN(128)
		if rng.IntN(3) == 0 {
			nt = 1 + rng.IntN(3)
		}
		id := fmt.Sprintf("ing-%d", i)
		in := inst{ID: id, Zone: zones[rng.IntN(nz)], Tokens: pool.take(rng, nt), NTokens: nt, RegTS: 1000}
		if i < nz {
			in.Zone = zones[i%nz] // every zone populated when there are enough instances
		}
		if rng.IntN(6) == 0 {
			in.ReadOnly, in.ReadOnlyTS = true, 1000
		}
		c[id] = in
	}
	return c, zones
}

func zonesOf(c content) map[string]bool {
	z := map[string]bool{}
	for _, in := range c {
		z[in.Zone] = true
	}
	return z
}

func checkEnvelope(run *vt.Run, cs vt.CaseID, c content, zoneAware bool, id string, size int, got []string) {
	zs := zonesOf(c)
	g := setOf(got)
	detail := func() map[string]any {
		return map[string]any{"ring": c, "zone_aware": zoneAware, "identifier": id, "size": size, "shard": got}
	}
	for _, m := range got {
		if c[m].ReadOnly {
			run.Violation(cs, "plain/read-only-member", "a read-only instance is in the shard: "+m, detail())
		}
		if _, ok := c[m]; !ok {
			run.Violation(cs, "plain/unknown-member", "the shard holds an instance that is not in the ring: "+m, detail())
		}
	}
	// eligible = writable instances owning tokens (the walk over the tokens of a zone finds only those); when the
	// per-zone target covers every registered instance of a zone the whole zone is taken, token-less writable
	// instances included
	eligible := map[string]int{}
	writable := map[string]int{}
	registered := map[string]int{}
	total, totalOwners := 0, 0
	for _, in := range c {
		registered[in.Zone]++
		if !in.ReadOnly {
			writable[in.Zone]++
			total++
			if len(in.Tokens) > 0 {
				eligible[in.Zone]++
				totalOwners++
			}
		}
	}
	if size <= 0 {
		if len(got) != total {
			run.Violation(cs, "plain/size-zero-not-all-writable", fmt.Sprintf("size %d must give all %d writable instances, got %d", size, total, len(got)), detail())
		}
		return
	}
	if !zoneAware {
		want := size
		if totalOwners < want {
			want = totalOwners
		}
		if len(got) != want {
			run.Violation(cs, "plain/wrong-size", fmt.Sprintf("shard has %d instances, expected %d", len(got), want), detail())
		}
		return
	}
	per := (size + len(zs) - 1) / len(zs)
	for z := range zs {
		n := 0
		for m := range g {
			if c[m].Zone == z {
				n++
			}
		}
		want := per
		if per >= registered[z] {
			want = writable[z]
		} else if eligible[z] < want {
			want = eligible[z]
		}
		if n != want {
			sig := "plain/zone-underfilled"
			if n > want {
				sig = "plain/zone-overfilled"
			}
			run.Violation(cs, sig, fmt.Sprintf("zone %s contributes %d instances, expected %d (ceil(%d/%d)=%d, eligible %d)", z, n, want, size, len(zs), per, eligible[z]), detail())
		}
	}
}

func TestC12(t *testing.T) {
	run := vt.NewRun("C12", "exploration")
	run.SetRule("case = (ring content, identifier, size) on a real ring.Ring fed through the store: determinism (two independently built rings, repeated calls), per-zone envelope, no read-only member, monotonic in size, +-1 instance / one read-only toggle changes at most one member on either side (zone set unchanged); look-back: histories of joins, leaves and read-only switches at whole virtual seconds, the plain shard of every probed (identifier, size) recorded per content, ShuffleShardWithLookback at random later instants must contain every still-registered member of every content valid inside the window; the same for PartitionRing over partition state changes. non-trivial = shard smaller than the ring / non-empty history union; distinct by (content, identifier, size[, window]).")
	run.Assume("every instance has >= 1 token (except in generator tokenless, which judges determinism, envelope and read-only exclusion only); the set of zones is constant inside a look-back window and for the +-1 clause")

	// ---- rings with registered instances that own no tokens yet (outside the quantifier's "1..128 tokens", so
	// only determinism, the envelope and the read-only exclusion are judged; the +-1 clause does not hold there:
	// one more registered instance can switch a zone from "take the whole zone" to "walk the tokens")
	run.ForEachT(t, "tokenless", vt.N(250, 8000), func(t *testing.T, c vt.CaseID, rng *rand.Rand, s *vt.Slot) {
		s.Enter(c, "crash/tokenless")
		defer s.Leave()
		synctest.Test(t, func(t *testing.T) {
			pool := &tokenPool{used: map[uint32]bool{}}
			cont, _ := randomContent(rng, pool, 16)
			for _, id := range sortedIDs(cont) {
				if rng.IntN(4) == 0 {
					in := cont[id]
					in.Tokens, in.NTokens = nil, 0
					cont[id] = in
				}
			}
			za := rng.IntN(4) != 0
			r1, stop1, err := freshRing(cont, za, rng.IntN(2) == 0)
			if err != nil {
				run.Inconclusive(err.Error())
				return
			}
			defer stop1()
			r2, stop2, _ := freshRing(cont, za, true)
			defer stop2()
			csig := vt.Hash64(cont.sig())
			for q := 0; q < 4; q++ {
				id := fmt.Sprintf("tenant-%d", rng.IntN(1000))
				for size := 0; size <= len(cont)+2; size++ {
					var a, b []string
					p, stack := vt.Recover(func() {
						a = members(r1.ShuffleShard(id, size))
						b = members(r2.ShuffleShard(id, size))
					})
					if p != nil {
						run.Violation(c, "plain/panic", "ShuffleShard panicked", map[string]any{"ring": cont, "identifier": id, "size": size, "panic": fmt.Sprint(p), "stack": stack})
						return
					}
					run.EvalH(vt.Mix(csig, vt.Hash64(id), uint64(size), 9), size > 0 && len(a) < len(cont))
					if fmt.Sprint(a) != fmt.Sprint(b) {
						run.Violation(c, "plain/not-deterministic", "equal ring content gives different shards", map[string]any{"ring": cont, "zone_aware": za, "identifier": id, "size": size, "first": a, "other_ring": b})
					}
					checkEnvelope(run, c, cont, za, id, size, a)
				}
			}
		})
	})

	// ---- static rings: envelope, determinism, monotonicity, +-1 stability
	run.ForEachT(t, "static", vt.N(700, 30000), func(t *testing.T, c vt.CaseID, rng *rand.Rand, s *vt.Slot) {
		s.Enter(c, "crash/static")
		defer s.Leave()
		synctest.Test(t, func(t *testing.T) {
			pool := &tokenPool{used: map[uint32]bool{}}
			cont, zones := randomContent(rng, pool, 40)
			za := rng.IntN(3) != 0
			r1, stop1, err := freshRing(cont, za, rng.IntN(2) == 0)
			if err != nil {
				run.Inconclusive(err.Error())
				return
			}
			defer stop1()
			r2, stop2, _ := freshRing(cont, za, true)
			defer stop2()
			// neighbour contents for the +-1 clause
			type nb struct {
				what string
				c    content
			}
			var nbs []nb
			{ // add one instance to an existing zone
				c2 := cont.clone()
				nt := 1 + rng.IntN(128)
				c2["ing-new"] = inst{ID: "ing-new", Zone: zones[rng.IntN(len(zones))], Tokens: pool.take(rng, nt), NTokens: nt, RegTS: 1000}
				if zonesEqual(zonesOf(c2), zonesOf(cont)) {
					nbs = append(nbs, nb{"add ing-new", c2})
				}
			}
			if len(cont) > 1 { // remove one
				ids := sortedIDs(cont)
				x := ids[rng.IntN(len(ids))]
				c2 := cont.clone()
				delete(c2, x)
				if zonesEqual(zonesOf(c2), zonesOf(cont)) {
					nbs = append(nbs, nb{"remove " + x, c2})
				}
			}
			{ // toggle one read-only flag
				ids := sortedIDs(cont)
				x := ids[rng.IntN(len(ids))]
				c2 := cont.clone()
				in := c2[x]
				in.ReadOnly = !in.ReadOnly
				in.ReadOnlyTS = 2000
				c2[x] = in
				nbs = append(nbs, nb{"toggle read-only " + x, c2})
			}
			var nbRings []*ring.Ring
			for _, n := range nbs {
				r, stop, err := freshRing(n.c, za, true)
				if err != nil {
					run.Inconclusive(err.Error())
					return
				}
				defer stop()
				nbRings = append(nbRings, r)
			}
			csig := vt.Hash64(cont.sig())
			for q := 0; q < 6; q++ {
				id := fmt.Sprintf("tenant-%d", rng.IntN(1000))
				var prev []string
				sizes := []int{0, 1, 2, 3}
				for x := 0; x < 4; x++ {
					sizes = append(sizes, 1+rng.IntN(len(cont)+2))
				}
				sort.Ints(sizes)
				for _, size := range sizes {
					var a, b, a2 []string
					p, stack := vt.Recover(func() {
						a = members(r1.ShuffleShard(id, size))
						a2 = members(r1.ShuffleShard(id, size))
						b = members(r2.ShuffleShard(id, size))
					})
					if p != nil {
						run.Violation(c, "plain/panic", "ShuffleShard panicked", map[string]any{"ring": cont, "identifier": id, "size": size, "panic": fmt.Sprint(p), "stack": stack})
						return
					}
					run.EvalH(vt.Mix(csig, vt.Hash64(id), uint64(size), 1), size > 0 && len(a) < len(cont))
					if fmt.Sprint(a) != fmt.Sprint(b) || fmt.Sprint(a) != fmt.Sprint(a2) {
						run.Violation(c, "plain/not-deterministic", "equal ring content gives different shards", map[string]any{"ring": cont, "zone_aware": za, "identifier": id, "size": size, "first": a, "repeat": a2, "other_ring": b})
					}
					checkEnvelope(run, c, cont, za, id, size, a)
					if size > 0 && prev != nil {
						if onlyPrev, _ := diff(prev, a); len(onlyPrev) > 0 {
							run.Violation(c, "plain/not-monotonic-in-size", fmt.Sprintf("shard of a smaller size holds %v which size %d lacks", onlyPrev, size), map[string]any{"ring": cont, "zone_aware": za, "identifier": id, "size": size, "smaller": prev, "larger": a})
						}
					}
					if size > 0 {
						prev = a
					}
					for i, n := range nbs {
						nbm := members(nbRings[i].ShuffleShard(id, size))
						oa, ob := diff(a, nbm)
						run.EvalH(vt.Mix(csig, vt.Hash64(id), uint64(size), uint64(i)+10), len(oa)+len(ob) > 0)
						if len(oa) > 1 || len(ob) > 1 {
							sig := "plain/unstable-on-single-change/" + strings.Fields(n.what)[0]
							run.Violation(c, sig, fmt.Sprintf("%s changed the shard by %v / %v", n.what, oa, ob), map[string]any{"ring": cont, "zone_aware": za, "identifier": id, "size": size, "before": a, "after": nbm, "change": n.what})
						}
					}
					if size > 0 && len(a) < len(cont) && run.WantSample() {
						run.Sample(map[string]any{"kind": "plain", "instances": len(cont), "zones": len(zones), "zone_aware": za, "identifier": id, "size": size, "shard": a})
					}
				}
			}
		})
	})

	// ---- look-back histories
	run.ForEachT(t, "lookback", vt.N(250, 9000), func(t *testing.T, c vt.CaseID, rng *rand.Rand, s *vt.Slot) {
		s.Enter(c, "crash/lookback")
		defer s.Leave()
		synctest.Test(t, func(t *testing.T) { lookbackHistory(run, c, rng) })
	})

	// ---- partition ring
	run.ForEach("partition", vt.N(1500, 50000), func(c vt.CaseID, rng *rand.Rand, s *vt.Slot) {
		partitionCase(run, c, rng)
	})
	run.Finish(t)
}

func zonesEqual(a, b map[string]bool) bool {
	if len(a) != len(b) {
		return false
	}
	for k := range a {
		if !b[k] {
			return false
		}
	}
	return true
}

func sortedIDs(c content) []string {
	ids := make([]string, 0, len(c))
	for id := range c {
		ids = append(ids, id)
	}
	sort.Strings(ids)
	return ids
}

type snapshot struct {
	from   time.Time // instant at which this content became valid (events happen at x.5 s, stamps are whole seconds)
	shards map[string][]string
}

func lookbackHistory(run *vt.Run, c vt.CaseID, rng *rand.Rand) {
	pool := &tokenPool{used: map[uint32]bool{}}
	za := rng.IntN(3) != 0
	nz := 1 + rng.IntN(3)
	start := time.Now().Unix()
	cont := content{}
	// anchors: one old instance per zone that never leaves keeps the zone set constant
	for z := 0; z < nz; z++ {
		id := fmt.Sprintf("anchor-%d", z)
		cont[id] = inst{ID: id, Zone: fmt.Sprintf("z%d", z), Tokens: pool.take(rng, 1+rng.IntN(64)), RegTS: start - 100000}
	}
	for i := 0; i < rng.IntN(12); i++ {
		id := fmt.Sprintf("ing-%d", i)
		in := inst{ID: id, Zone: fmt.Sprintf("z%d", rng.IntN(nz)), Tokens: pool.take(rng, 1+rng.IntN(64)), RegTS: start - 100000}
		switch rng.IntN(8) {
		case 0: // read-only since an unknown time
			in.ReadOnly = true
		case 1: // read-only since long ago
			in.ReadOnly, in.ReadOnlyTS = true, start-50000
		case 2: // registration time unknown
			in.RegTS = 0
		}
		cont[id] = in
	}
	type probe struct {
		id   string
		size int
	}
	var probes []probe
	for i := 0; i < 4; i++ {
		probes = append(probes, probe{fmt.Sprintf("tenant-%d", rng.IntN(100)), 1 + rng.IntN(8)})
	}
	var snaps []snapshot
	var evlog []string
	record := func() bool {
		r, stop, err := freshRing(cont, za, true)
		if err != nil {
			run.Inconclusive(err.Error())
			return false
		}
		defer stop()
		sn := snapshot{from: time.Now(), shards: map[string][]string{}}
		for _, p := range probes {
			sn.shards[fmt.Sprint(p)] = members(r.ShuffleShard(p.id, p.size))
		}
		if len(snaps) > 0 && snaps[len(snaps)-1].from.Equal(sn.from) {
			snaps[len(snaps)-1] = sn // several events at one instant: only the last content lasts
		} else {
			snaps = append(snaps, sn)
		}
		return true
	}
	if !record() {
		return
	}
	// events happen at half seconds; their stamps are truncated to whole seconds, queries are
	// made at whole seconds: a content replaced by an event stamped T was still valid at T.0
	time.Sleep(500 * time.Millisecond)
	next := 0
	steps := 10 + rng.IntN(25)
	for step := 0; step < steps; step++ {
		if rng.IntN(4) != 0 {
			time.Sleep(time.Duration(1+rng.IntN(40)) * time.Second)
		}
		now := time.Now().Unix()
		ids := sortedIDs(cont)
		switch rng.IntN(4) {
		case 0: // join
			id := fmt.Sprintf("new-%d", next)
			next++
			cont[id] = inst{ID: id, Zone: fmt.Sprintf("z%d", rng.IntN(nz)), Tokens: pool.take(rng, 1+rng.IntN(64)), RegTS: now}
			evlog = append(evlog, fmt.Sprintf("t=%d join %s", now-start, id))
		case 1: // leave (never an anchor)
			var cand []string
			for _, id := range ids {
				if !strings.HasPrefix(id, "anchor") {
					cand = append(cand, id)
				}
			}
			if len(cand) == 0 {
				continue
			}
			x := cand[rng.IntN(len(cand))]
			delete(cont, x)
			evlog = append(evlog, fmt.Sprintf("t=%d leave %s", now-start, x))
		default: // read-only switch
			x := ids[rng.IntN(len(ids))]
			in := cont[x]
			in.ReadOnly = !in.ReadOnly
			in.ReadOnlyTS = now
			cont[x] = in
			evlog = append(evlog, fmt.Sprintf("t=%d read-only=%v %s", now-start, in.ReadOnly, x))
		}
		if !record() {
			return
		}
		// query the look-back variant now and then
		if rng.IntN(2) == 0 {
			if rng.IntN(2) == 0 {
				time.Sleep(time.Duration(rng.IntN(30)) * time.Second)
			}
			time.Sleep(500 * time.Millisecond) // to the next whole second
			qnow := time.Now()
			period := time.Duration(1+rng.IntN(120)) * time.Second
			if rng.IntN(2) == 0 && len(snaps) > 1 {
				// aim the window start at the exact second of a past event (boundary of the >= rule)
				ev := snaps[1+rng.IntN(len(snaps)-1)].from.Unix()
				if d := qnow.Unix() - ev; d > 0 {
					period = time.Duration(d) * time.Second
				}
			}
			until := qnow.Add(-period)
			r, stop, err := freshRing(cont, za, rng.IntN(2) == 0)
			if err != nil {
				run.Inconclusive(err.Error())
				return
			}
			for _, p := range probes {
				var got []string
				pn, stack := vt.Recover(func() {
					got = members(r.ShuffleShardWithLookback(p.id, p.size, period, qnow))
					// a second call exercises the cache
					if g2 := members(r.ShuffleShardWithLookback(p.id, p.size, period, qnow)); fmt.Sprint(g2) != fmt.Sprint(got) {
						run.Violation(c, "lookback/not-deterministic", "two identical look-back calls differ", map[string]any{"first": got, "second": g2})
					}
				})
				if pn != nil {
					run.Violation(c, "lookback/panic", "ShuffleShardWithLookback panicked", map[string]any{"panic": fmt.Sprint(pn), "stack": stack, "events": evlog})
					stop()
					return
				}
				g := setOf(got)
				union := map[string]bool{}
				for i, sn := range snaps {
					end := qnow.Add(time.Hour)
					if i+1 < len(snaps) {
						end = snaps[i+1].from
					}
					// content valid on [from, end): inside the window iff from <= now and end > window start
					if !sn.from.After(qnow) && end.After(until) {
						for _, m := range sn.shards[fmt.Sprint(p)] {
							union[m] = true
						}
					}
				}
				var missing []string
				nontriv := false
				for m := range union {
					if _, still := cont[m]; !still {
						continue
					}
					if !g[m] {
						missing = append(missing, m)
					}
				}
				cur := snaps[len(snaps)-1].shards[fmt.Sprint(p)]
				if len(union) > len(cur) {
					nontriv = true
				}
				run.EvalH(vt.Mix(vt.Hash64(strings.Join(evlog, ";")), vt.Hash64(fmt.Sprint(p)), uint64(period), uint64(qnow.Unix())), nontriv)
				if len(missing) > 0 {
					sort.Strings(missing)
					run.Violation(c, "lookback/missing-past-member", fmt.Sprintf("look-back shard of %v (window %v) lacks %v which belonged to the shard inside the window and is still registered", p, period, missing), map[string]any{
						"events": evlog, "query_at": qnow.Unix() - start, "period_s": period.Seconds(), "zone_aware": za, "probe": p, "lookback_shard": got, "ring_now": cont, "current_plain_shard": cur})
				}
				for _, m := range got {
					if _, ok := cont[m]; !ok {
						run.Violation(c, "lookback/unknown-member", "look-back shard holds an instance that is not registered: "+m, nil)
					}
				}
				if nontriv && run.WantSample() {
					run.Sample(map[string]any{"kind": "lookback", "events": evlog, "probe": fmt.Sprint(p), "period_s": period.Seconds(), "lookback_shard": got, "current_plain_shard": cur})
				}
			}
			stop()
			time.Sleep(500 * time.Millisecond) // back to half seconds
		}
	}
}

// ---- partition ring ----------------------------------------------------------------

func partitionCase(run *vt.Run, c vt.CaseID, rng *rand.Rand) {
	np := 1 + rng.IntN(30)
	d := ring.NewPartitionRingDesc()
	states := []ring.PartitionState{ring.PartitionActive, ring.PartitionActive, ring.PartitionActive, ring.PartitionInactive, ring.PartitionPending}
	base := int64(100000)
	gen := rng.IntN(3) == 0
	used := map[uint32]bool{}
	for p := 0; p < np; p++ {
		st := states[rng.IntN(len(states))]
		if gen {
			d.AddPartition(int32(p), st, time.Unix(base, 0))
		} else {
			var toks []uint32
			for len(toks) < 1+rng.IntN(16) {
				x := rng.Uint32()
				if !used[x] {
					used[x] = true
					toks = append(toks, x)
				}
			}
			sort.Slice(toks, func(i, j int) bool { return toks[i] < toks[j] })
			d.Partitions[int32(p)] = ring.PartitionDesc{Id: int32(p), Tokens: toks, State: st, StateTimestamp: base}
		}
	}
	build := func(d *ring.PartitionRingDesc, cache int) *ring.PartitionRing {
		pr, err := ring.NewPartitionRingWithOptions(*d, ring.PartitionRingOptions{ShuffleShardCacheSize: cache})
		if err != nil {
			run.Violation(c, "partition/ring-build-failed", err.Error(), nil)
			return nil
		}
		return pr
	}
	pr := build(d, 0)
	pr2 := build(d.Clone().(*ring.PartitionRingDesc), 2)
	if pr == nil || pr2 == nil {
		return
	}
	active := map[int32]bool{}
	for id, p := range d.Partitions {
		if p.State == ring.PartitionActive {
			active[id] = true
		}
	}
	ids := func(r *ring.PartitionRing) []string {
		var o []string
		for _, x := range r.PartitionIDs() {
			o = append(o, fmt.Sprint(x))
		}
		sort.Strings(o)
		return o
	}
	// neighbour: one partition toggled active<->inactive, or one removed / added
	d2 := d.Clone().(*ring.PartitionRingDesc)
	what := ""
	switch rng.IntN(3) {
	case 0:
		for id, p := range d2.Partitions {
			if p.State != ring.PartitionPending {
				if p.State == ring.PartitionActive {
					p.State = ring.PartitionInactive
				} else {
					p.State = ring.PartitionActive
				}
				d2.Partitions[id] = p
				what = fmt.Sprintf("toggle state of partition %d", id)
				break
			}
		}
	case 1:
		for id := range d2.Partitions {
			delete(d2.Partitions, id)
			what = fmt.Sprintf("remove partition %d", id)
			break
		}
	default:
		if gen {
			d2.AddPartition(int32(np), ring.PartitionActive, time.Unix(base, 0))
		} else {
			x := rng.Uint32()
			for used[x] {
				x = rng.Uint32()
			}
			d2.Partitions[int32(np)] = ring.PartitionDesc{Id: int32(np), Tokens: []uint32{x}, State: ring.PartitionActive, StateTimestamp: base}
		}
		what = fmt.Sprintf("add partition %d", np)
	}
	var prN *ring.PartitionRing
	if what != "" && len(d2.Partitions) > 0 {
		prN = build(d2, 0)
	}
	dsig := vt.Hash64(fmt.Sprint(d.Partitions))
	for q := 0; q < 4; q++ {
		id := fmt.Sprintf("tenant-%d", rng.IntN(1000))
		var prev []string
		psizes := []int{0, 1, 2, 3, 1 + rng.IntN(np+2), np, np + 1}
		sort.Ints(psizes)
		for _, size := range psizes {
			s1, err1 := pr.ShuffleShard(id, size)
			s2, err2 := pr2.ShuffleShard(id, size)
			s1b, _ := pr.ShuffleShard(id, size)
			if err1 != nil || err2 != nil {
				run.Violation(c, "partition/error", fmt.Sprint(err1, err2), map[string]any{"partitions": np, "size": size})
				continue
			}
			a, b := ids(s1), ids(s2)
			run.EvalH(vt.Mix(dsig, vt.Hash64(id), uint64(size), 3), size > 0 && len(a) < len(active))
			if fmt.Sprint(a) != fmt.Sprint(b) || fmt.Sprint(a) != fmt.Sprint(ids(s1b)) {
				run.Violation(c, "partition/not-deterministic", "equal partition-ring content gives different shards", map[string]any{"identifier": id, "size": size, "a": a, "b": b})
			}
			want := size
			if size <= 0 || size > len(active) {
				want = len(active)
			}
			if len(a) != want {
				run.Violation(c, "partition/wrong-size", fmt.Sprintf("shard has %d partitions, expected %d (size %d, %d active of %d)", len(a), want, size, len(active), np), map[string]any{"identifier": id, "shard": a, "desc": fmt.Sprint(d.Partitions)})
			}
			if pr.ShuffleShardSize(size) != want {
				run.Violation(c, "partition/shuffle-shard-size", fmt.Sprintf("ShuffleShardSize(%d)=%d, expected %d", size, pr.ShuffleShardSize(size), want), nil)
			}
			for _, x := range s1.PartitionIDs() {
				if !active[x] {
					run.Violation(c, "partition/non-active-member", fmt.Sprintf("partition %d is not active but in the shard", x), map[string]any{"identifier": id, "size": size})
				}
			}
			if size > 0 && prev != nil {
				if op, _ := diff(prev, a); len(op) > 0 {
					run.Violation(c, "partition/not-monotonic-in-size", fmt.Sprintf("smaller shard holds %v which size %d lacks", op, size), map[string]any{"identifier": id, "smaller": prev, "larger": a})
				}
			}
			if size > 0 {
				prev = a
			}
			if prN != nil && size > 0 {
				sn, err := prN.ShuffleShard(id, size)
				if err == nil {
					oa, ob := diff(a, ids(sn))
					run.EvalH(vt.Mix(dsig, vt.Hash64(id), uint64(size), 4), len(oa)+len(ob) > 0)
					if len(oa) > 1 || len(ob) > 1 {
						run.Violation(c, "partition/unstable-on-single-change", fmt.Sprintf("%s changed the shard by %v / %v", what, oa, ob), map[string]any{"identifier": id, "size": size, "before": a, "after": ids(sn), "desc": fmt.Sprint(d.Partitions)})
					}
				}
			}
		}
	}
	// look-back over a history of state changes
	hist := d.Clone().(*ring.PartitionRingDesc)
	type psnap struct {
		from  float64 // event instant = stamp + 0.5 s
		shard []string
	}
	probeID, probeSize := fmt.Sprintf("tenant-%d", rng.IntN(50)), 1+rng.IntN(6)
	now := base + 1000
	var snaps []psnap
	rec := func() {
		r := build(hist, 0)
		if r == nil {
			return
		}
		s, err := r.ShuffleShard(probeID, probeSize)
		if err != nil {
			return
		}
		sn := psnap{float64(now) + 0.5, ids(s)}
		if len(snaps) > 0 && snaps[len(snaps)-1].from == sn.from {
			snaps[len(snaps)-1] = sn
		} else {
			snaps = append(snaps, sn)
		}
	}
	rec()
	var evlog []string
	for step := 0; step < 6+rng.IntN(10); step++ {
		if rng.IntN(4) != 0 {
			now += int64(1 + rng.IntN(40))
		}
		var pids []int
		for id := range hist.Partitions {
			pids = append(pids, int(id))
		}
		sort.Ints(pids)
		pid := int32(pids[rng.IntN(len(pids))])
		p := hist.Partitions[pid]
		switch p.State {
		case ring.PartitionPending:
			p.State = ring.PartitionActive
		case ring.PartitionActive:
			p.State = ring.PartitionInactive
		default:
			p.State = ring.PartitionActive
		}
		p.StateTimestamp = now
		hist.Partitions[pid] = p
		evlog = append(evlog, fmt.Sprintf("t=%d partition %d -> %v", now-base, pid, p.State))
		rec()
		if rng.IntN(2) == 0 {
			qnow := now + 1 + int64(rng.IntN(30))
			period := int64(1 + rng.IntN(120))
			if rng.IntN(2) == 0 && len(snaps) > 1 {
				if d := qnow - int64(snaps[1+rng.IntN(len(snaps)-1)].from); d > 0 {
					period = d
				}
			}
			until := qnow - period
			r := build(hist, rng.IntN(3))
			if r == nil {
				return
			}
			lb, err := r.ShuffleShardWithLookback(probeID, probeSize, time.Duration(period)*time.Second, time.Unix(qnow, 0))
			if err != nil {
				run.Violation(c, "partition/lookback-error", err.Error(), map[string]any{"events": evlog})
				continue
			}
			got := setOf(ids(lb))
			var missing []string
			union := 0
			for i, sn := range snaps {
				end := float64(qnow) + 1e9
				if i+1 < len(snaps) {
					end = snaps[i+1].from
				}
				if sn.from <= float64(qnow) && end > float64(until) {
					for _, m := range sn.shard {
						union++
						if !got[m] {
							missing = append(missing, m)
						}
					}
				}
			}
			for _, x := range lb.PartitionIDs() {
				if hist.Partitions[x].State == ring.PartitionPending {
					run.Violation(c, "partition/lookback-pending-member", fmt.Sprintf("pending partition %d returned by look-back", x), map[string]any{"events": evlog})
				}
			}
			run.EvalH(vt.Mix(dsig, vt.Hash64(strings.Join(evlog, ";")), uint64(qnow), uint64(period)), union > len(snaps[len(snaps)-1].shard))
			if len(missing) > 0 {
				run.Violation(c, "partition/lookback-missing-past-member", fmt.Sprintf("look-back shard lacks partitions %v that belonged to the shard inside the window", missing), map[string]any{"events": evlog, "query_at": qnow - base, "period_s": period, "identifier": probeID, "size": probeSize, "lookback": ids(lb)})
			}
		}
	}
}
