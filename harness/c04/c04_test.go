package c04

import (
	"context"
	"fmt"
	"math/rand/v2"
	"strings"
	"sync"
	"testing"
	"testing/synctest"
	"time"

	"github.com/grafana/dskit/kv/codec"
	"github.com/grafana/dskit/ring"

	"verifharness/simnet"
	"verifharness/vt"
)

// entryKind abstracts "an instance, partition or owner" of the statement.
type entryKind struct {
	name  string
	key   string
	codec codec.Codec
	// write registers/refreshes the entry in the value (returns false if nothing would change)
	write func(v interface{}, now time.Time, seq int) (interface{}, bool)
	// remove deletes the entry from the value as a local update would
	remove func(v interface{}) (interface{}, bool)
	// extract: is the entry stored, with which stamp, is it a tombstone
	extract func(v interface{}) (present bool, ts int64, tomb bool)
}

var kinds = []entryKind{
	{
		name: "instance", key: simnet.RingKey, codec: ring.GetCodec(),
		write: func(v interface{}, now time.Time, seq int) (interface{}, bool) {
			d := ring.GetOrCreateRingDesc(v)
			d.Ingesters["x"] = ring.InstanceDesc{Id: "x", Addr: "x", Zone: "z", State: ring.InstanceState(seq % 4), Timestamp: now.Unix(), Tokens: []uint32{7, 77}, RegisteredTimestamp: 1}
			return d, true
		},
		remove: func(v interface{}) (interface{}, bool) {
			d := ring.GetOrCreateRingDesc(v)
			if _, ok := d.Ingesters["x"]; !ok {
				return nil, false
			}
			delete(d.Ingesters, "x")
			return d, true
		},
		extract: func(v interface{}) (bool, int64, bool) {
			d, _ := v.(*ring.Desc)
			if d == nil {
				return false, 0, false
			}
			e, ok := d.Ingesters["x"]
			return ok, e.Timestamp, e.State == ring.LEFT
		},
	},
	{
		name: "owner", key: simnet.PartKey, codec: ring.GetPartitionRingCodec(),
		write: func(v interface{}, now time.Time, seq int) (interface{}, bool) {
			d := ring.GetOrCreatePartitionRingDesc(v)
			if !d.AddOrUpdateOwner("ox", ring.OwnerActive, int32(now.Unix()%3), now) {
				return nil, false
			}
			return d, true
		},
		remove: func(v interface{}) (interface{}, bool) {
			d := ring.GetOrCreatePartitionRingDesc(v)
			if !d.RemoveOwner("ox") {
				return nil, false
			}
			return d, true
		},
		extract: func(v interface{}) (bool, int64, bool) {
			d, _ := v.(*ring.PartitionRingDesc)
			if d == nil {
				return false, 0, false
			}
			o, ok := d.Owners["ox"]
			return ok, o.UpdatedTimestamp, o.State == ring.OwnerDeleted
		},
	},
	{
		name: "partition", key: simnet.PartKey, codec: ring.GetPartitionRingCodec(),
		write: func(v interface{}, now time.Time, seq int) (interface{}, bool) {
			d := ring.GetOrCreatePartitionRingDesc(v)
			want := ring.PartitionState(1 + now.Unix()%3)
			if !d.HasPartition(1) {
				d.Partitions[1] = ring.PartitionDesc{Id: 1, Tokens: []uint32{5, 55}, State: want, StateTimestamp: now.Unix()}
				return d, true
			}
			if seq%3 == 0 {
				// an operator locks the partition's state; the removal that follows must still win everywhere
				if d.UpdatePartitionStateChangeLock(1, true, now) {
					return d, true
				}
			}
			if ok, _ := d.UpdatePartitionState(1, want, now); !ok {
				return nil, false
			}
			return d, true
		},
		remove: func(v interface{}) (interface{}, bool) {
			d := ring.GetOrCreatePartitionRingDesc(v)
			if !d.HasPartition(1) {
				return nil, false
			}
			d.RemovePartition(1)
			return d, true
		},
		extract: func(v interface{}) (bool, int64, bool) {
			d, _ := v.(*ring.PartitionRingDesc)
			if d == nil {
				return false, 0, false
			}
			p, ok := d.Partitions[1]
			return ok, p.StateTimestamp, p.State == ring.PartitionDeleted
		},
	},
}

type upd struct {
	ts   int64
	tomb bool
}

func better(a, b upd) bool { // is a newer than b by the rule (removal wins a tie)
	if a.ts != b.ts {
		return a.ts > b.ts
	}
	return a.tomb && !b.tomb
}

type poolMsg struct {
	bytes []byte
	full  bool // a full-state dump
	u     *upd // what it says about the entry (nil = nothing)
	at    time.Time
	from  int
}

type script struct {
	k         entryKind
	net       *simnet.Net
	n         int
	rng       *rand.Rand
	best      []*upd // per node: newest update of the entry the node has merged
	pool      []poolMsg
	journal   []string
	watch     []*watchLog
	seq       int
	lastRm    time.Time
	removed   bool
	stats     map[string]int
	viol      checker
	retention time.Duration
}

type watchLog struct {
	mu   sync.Mutex
	vals []string
}

func (s *script) log(f string, a ...any) { s.journal = append(s.journal, fmt.Sprintf(f, a...)) }

func (s *script) merge(node int, u *upd) {
	if u == nil {
		return
	}
	if s.best[node] == nil || better(*u, *s.best[node]) {
		c := *u
		s.best[node] = &c
	}
}

// collect pulls the broadcasts a node has queued into the pool.
func (s *script) collect(node int) []poolMsg {
	var out []poolMsg
	for _, m := range s.net.Collect(node) {
		pm := poolMsg{bytes: m, at: time.Now(), from: node}
		k, _, v, _, err := simnet.DecodeMessage(m)
		if err == nil && k == s.k.key {
			if present, ts, tomb := s.k.extract(v); present {
				pm.u = &upd{ts, tomb}
			}
		}
		s.pool = append(s.pool, pm)
		out = append(out, pm)
	}
	return out
}

func (s *script) snapshotState(node int) {
	// a third of the dumps are taken the way a joining node's exchange takes them (memberlist's join flag)
	join := s.rng.IntN(3) == 0
	b := append([]byte(nil), s.net.Nodes[node].KV.LocalState(join)...)
	pm := poolMsg{bytes: b, full: true, at: time.Now(), from: node}
	if st, err := simnet.DecodeState(b); err == nil {
		if present, ts, tomb := s.k.extract(st[s.k.key]); present {
			pm.u = &upd{ts, tomb}
		}
	}
	// "tombstones are forwarded to peers like any other change": a full state carries the tombstone its node holds
	if exp := s.best[node]; exp != nil && exp.tomb && s.viol != nil && !(s.retention > 0 && time.Since(s.lastRm) > s.retention-2*time.Second) {
		if pm.u == nil || !pm.u.tomb || pm.u.ts < exp.ts {
			s.viol("tombstone-not-in-full-state/"+s.k.name, fmt.Sprintf("the full state of n%d (join flag %v) does not carry the tombstone the node has merged (stamp %d)", node, join, exp.ts), map[string]any{"carried": fmt.Sprintf("%+v", pm.u)})
		}
	}
	s.pool = append(s.pool, pm)
}

func (s *script) deliver(node int, pm poolMsg) {
	if pm.full {
		s.net.Nodes[node].KV.MergeRemoteState(append([]byte(nil), pm.bytes...), false)
	} else {
		s.net.Deliver(node, pm.bytes)
	}
	synctest.Wait()
	s.merge(node, pm.u)
}

type checker func(sig, what string, extra map[string]any)

// observe reads every node and compares with the per-node expectation.
func (s *script) observe(viol checker, retention time.Duration) {
	ctx := context.Background()
	for j := 0; j < s.n; j++ {
		v, err := s.net.Client(j, s.k.codec).Get(ctx, s.k.key)
		if err != nil {
			viol("read-error", err.Error(), nil)
			continue
		}
		present, ts, tomb := s.k.extract(v)
		s.stats["reads"]++
		if present && tomb {
			viol("tombstone-visible/"+s.k.name, fmt.Sprintf("a reader on n%d sees the tombstone of the %s", j, s.k.name), map[string]any{"value": simnet.Canon(v, true)})
		}
		visible := present && !tomb
		want := s.best[j] != nil && !s.best[j].tomb
		// after the retention a node may have dropped the tombstone: then stale data may legitimately come back
		gcPossible := s.removed && time.Since(s.lastRm) > retention
		if visible != want && !gcPossible {
			sig := "entry-missing/" + s.k.name
			if visible {
				sig = "resurrected/" + s.k.name
			}
			viol(sig, fmt.Sprintf("n%d shows the %s = %v (stamp %d); the newest update it has merged is %+v", j, s.k.name, visible, ts, s.best[j]), map[string]any{"value": simnet.Canon(v, true)})
		}
		if visible && want && s.best[j].ts != ts && !gcPossible {
			viol("stale-version-visible/"+s.k.name, fmt.Sprintf("n%d shows stamp %d, newest merged is %d", j, ts, s.best[j].ts), nil)
		}
		// the stored state keeps the tombstone while it is younger than the retention
		if s.best[j] != nil && s.best[j].tomb && time.Since(time.Unix(s.best[j].ts, 0)) < retention {
			st, err := simnet.DecodeState(s.net.Nodes[j].KV.LocalState(false))
			if err == nil {
				p, ts2, tomb2 := s.k.extract(st[s.k.key])
				s.stats["tombstone_retention_checks"]++
				if !p || !tomb2 || ts2 != s.best[j].ts {
					viol("tombstone-dropped-early/"+s.k.name, fmt.Sprintf("n%d no longer stores the tombstone (stamp %d, age %v, retention %v): present=%v tomb=%v stamp=%d", j, s.best[j].ts, time.Since(time.Unix(s.best[j].ts, 0)), retention, p, tomb2, ts2), nil)
				}
			}
		}
	}
	// watchers never receive tombstones
	for j, w := range s.watch {
		w.mu.Lock()
		for _, v := range w.vals {
			if strings.Contains(v, "TOMB") {
				viol("tombstone-visible-to-watcher/"+s.k.name, fmt.Sprintf("a watcher on n%d received the tombstone", j), map[string]any{"value": v})
			}
		}
		w.vals = nil
		w.mu.Unlock()
	}
}

func runScript(t *testing.T, run *vt.Run, c vt.CaseID, rng *rand.Rand, exhaustiveOrder []int) {
	synctest.Test(t, func(t *testing.T) {
		retention := time.Duration([]int{400, 900}[rng.IntN(2)]) * time.Second // longer than any script before its final phase
		n := 2 + rng.IntN(3)
		k := kinds[rng.IntN(len(kinds))]
		if exhaustiveOrder != nil {
			n = 2
			k = kinds[int(c.Idx)%len(kinds)]
		}
		net, err := simnet.New(n, simnet.DefaultConfig(retention))
		if err != nil {
			run.Inconclusive(err.Error())
			return
		}
		defer net.Stop()
		s := &script{k: k, net: net, n: n, rng: rng, best: make([]*upd, n), stats: map[string]int{}}
		viol := func(sig, what string, extra map[string]any) {
			d := map[string]any{"kind": k.name, "nodes": n, "retention": retention.String(), "journal": s.journal}
			for kk, v := range extra {
				d[kk] = v
			}
			run.Violation(c, sig, what, d)
		}
		s.viol, s.retention = viol, retention
		ctx, cancelWatch := context.WithCancel(context.Background())
		defer cancelWatch()
		for j := 0; j < n; j++ {
			w := &watchLog{}
			s.watch = append(s.watch, w)
			go net.Client(j, k.codec).WatchKey(ctx, k.key, func(v interface{}) bool {
				p, _, tomb := k.extract(v)
				w.mu.Lock()
				if p && tomb {
					w.vals = append(w.vals, "TOMB "+simnet.Canon(v, true))
				} else {
					w.vals = append(w.vals, "ok")
				}
				w.mu.Unlock()
				return true
			})
		}
		synctest.Wait()
		// in half of the cases every node already holds the key with unrelated entries (a node that has no value
		// at all stores the first update without merging): the tombstone then reaches replicas that know the ring
		// but have never seen the entry
		bystanders := rng.IntN(2) == 0
		if exhaustiveOrder != nil {
			bystanders = c.Idx%12 >= 6
		}
		if bystanders {
			for j := 0; j < n; j++ {
				j := j
				_ = net.Client(j, k.codec).CAS(context.Background(), k.key, func(in interface{}) (interface{}, bool, error) {
					now := time.Now()
					if k.key == simnet.RingKey {
						d := ring.GetOrCreateRingDesc(in)
						d.AddIngester(fmt.Sprintf("by%d", j), fmt.Sprintf("by%d", j), "z", []uint32{uint32(9000 + j)}, ring.ACTIVE, now, false, time.Time{}, nil)
						return d, false, nil
					}
					d := ring.GetOrCreatePartitionRingDesc(in)
					d.Partitions[int32(20+j)] = ring.PartitionDesc{Id: int32(20 + j), Tokens: []uint32{uint32(9000 + j)}, State: ring.PartitionActive, StateTimestamp: now.Unix()}
					d.AddOrUpdateOwner(fmt.Sprintf("oby%d", j), ring.OwnerActive, int32(20+j), now)
					return d, false, nil
				})
				synctest.Wait()
				net.Collect(j) // the bystander broadcasts are not part of the script
			}
			s.stats["scripts_with_bystander_entries"]++
			s.log("every node holds the key with an unrelated entry")
			time.Sleep(time.Second)
		}
		cas := func(node int, remove bool) bool {
			var u *upd
			joiners := 0
			if remove && rng.IntN(3) == 0 {
				joiners = 1 + rng.IntN(3)
			}
			err := net.Client(node, k.codec).CAS(context.Background(), k.key, func(in interface{}) (interface{}, bool, error) {
				now := time.Now()
				if remove {
					out, ok := k.remove(in)
					if !ok {
						return nil, false, nil
					}
					// a third of the removing updates also register brand-new, unrelated entries in the same write (a
					// lifecycler forgetting a dead peer in the heartbeat that registers itself; an editor replacing one
					// partition by others): at least as many as the value has ever lost
					if joiners > 0 {
						for j := 0; j < joiners; j++ {
							s.seq++
							name := fmt.Sprintf("joiner-%d", s.seq)
							switch d := out.(type) {
							case *ring.Desc:
								d.Ingesters[name] = ring.InstanceDesc{Id: name, Addr: name, Zone: "z", State: ring.ACTIVE, Timestamp: now.Unix(), Tokens: []uint32{uint32(1000 + s.seq)}, RegisteredTimestamp: now.Unix()}
							case *ring.PartitionRingDesc:
								// (explicit token: AddPartition would run the spread-minimising generator for index 1000+)
								d.Partitions[int32(1000+s.seq)] = ring.PartitionDesc{Id: int32(1000 + s.seq), Tokens: []uint32{uint32(100000 + s.seq)}, State: ring.PartitionActive, StateTimestamp: now.Unix()}
								d.AddOrUpdateOwner(name, ring.OwnerActive, int32(1000+s.seq), now)
							}
						}
						s.stats["removals_that_also_add_entries"]++
					}
					u = &upd{now.Unix(), true}
					return out, false, nil
				}
				s.seq++
				out, ok := k.write(in, now, s.seq)
				if !ok {
					return nil, false, nil
				}
				u = &upd{now.Unix(), false}
				return out, false, nil
			})
			synctest.Wait()
			if err != nil || u == nil {
				return false
			}
			// did the local update take effect (a same-second refresh is a no-op)
			// the stamp the model tracks is the entry's own (a write that only sets a partition's lock leaves it alone)
			if v, _ := net.Client(node, k.codec).Get(context.Background(), k.key); !remove && v != nil {
				if p, ts, tomb := k.extract(v); p && !tomb {
					u = &upd{ts, false}
				}
			}
			s.merge(node, u)
			if remove {
				s.removed, s.lastRm = true, time.Now()
				s.stats["removals"]++
			}
			return true
		}
		home := 0
		if exhaustiveOrder != nil {
			// n0 produces: heartbeat, heartbeat, removal (same second as the last heartbeat or later);
			// n1 receives the given sequence of those messages
			var msgs []poolMsg
			cas(home, false)
			msgs = append(msgs, s.collect(home)...)
			time.Sleep(time.Duration(1+rng.IntN(5)) * time.Second)
			cas(home, false)
			msgs = append(msgs, s.collect(home)...)
			if c.Idx%2 == 0 {
				time.Sleep(time.Duration(1+rng.IntN(5)) * time.Second)
			}
			cas(home, true)
			msgs = append(msgs, s.collect(home)...)
			s.snapshotState(home)
			msgs = append(msgs, s.pool[len(s.pool)-1])
			s.observe(viol, retention)
			for _, mi := range exhaustiveOrder {
				if mi < len(msgs) {
					s.log("deliver message %d (%+v full=%v) to n1", mi, msgs[mi].u, msgs[mi].full)
					first := s.best[1] == nil || !s.best[1].tomb
					s.deliver(1, msgs[mi])
					s.observe(viol, retention)
					// the first merge of the tombstone is forwarded
					if first && s.best[1] != nil && s.best[1].tomb {
						fw := s.collect(1)
						ok := false
						for _, f := range fw {
							if f.u != nil && f.u.tomb {
								ok = true
							}
						}
						s.stats["forward_checks"]++
						if !ok {
							viol("tombstone-not-forwarded/"+k.name, "a node that learnt the removal did not queue a broadcast carrying the tombstone", map[string]any{"queued": len(fw)})
						}
					}
				}
			}
		} else {
			steps := 10 + rng.IntN(25)
			for step := 0; step < steps; step++ {
				switch r := rng.IntN(12); {
				case r < 3: // heartbeat / state change on the home node (or re-registration after a removal)
					if cas(home, false) {
						s.log("t=%v heartbeat on n%d", time.Since(start()), home)
					}
					s.collect(home)
				case r == 3: // removal on a node that currently shows the entry
					node := rng.IntN(n)
					if cas(node, true) {
						s.log("t=%v removal on n%d", time.Since(start()), node)
						fw := s.collect(node)
						ok := false
						for _, f := range fw {
							if f.u != nil && f.u.tomb {
								ok = true
							}
						}
						s.stats["forward_checks"]++
						if !ok {
							viol("tombstone-not-forwarded/"+k.name, "the removing node did not queue a broadcast carrying the tombstone", nil)
						}
					}
				case r < 8 && len(s.pool) > 0: // (re)delivery of any earlier message to any node
					pm := s.pool[rng.IntN(len(s.pool))]
					node := rng.IntN(n)
					if retention > 0 && s.removed && time.Since(s.lastRm) > retention {
						break
					}
					had := s.best[node] != nil && s.best[node].tomb
					s.log("t=%v deliver %v-old message from n%d (%+v full=%v) to n%d", time.Since(start()), time.Since(pm.at), pm.from, pm.u, pm.full, node)
					s.deliver(node, pm)
					s.stats["redeliveries"]++
					fw := s.collect(node)
					if !had && s.best[node] != nil && s.best[node].tomb {
						ok := false
						for _, f := range fw {
							if f.u != nil && f.u.tomb {
								ok = true
							}
						}
						s.stats["forward_checks"]++
						if !ok {
							viol("tombstone-not-forwarded/"+k.name, fmt.Sprintf("n%d learnt the removal but did not queue a broadcast carrying the tombstone", node), map[string]any{"queued": len(fw)})
						}
					}
				case r == 8:
					s.snapshotState(rng.IntN(n))
				case r == 9:
					a, b := rng.IntN(n), rng.IntN(n)
					if a != b {
						// full-state exchange both ways: both learn each other's newest update
						ua, ub := s.best[a], s.best[b]
						net.PushPullJoin(a, b, rng.IntN(3) == 0)
						synctest.Wait()
						s.merge(a, ub)
						s.merge(b, ua)
						s.collect(a)
						s.collect(b)
						s.log("t=%v push/pull n%d<->n%d", time.Since(start()), a, b)
					}
				default:
					d := time.Duration(1+rng.IntN(8)) * time.Second
					if rng.IntN(3) == 0 {
						d = 0 // same second
					}
					time.Sleep(d)
				}
				s.observe(viol, retention)
			}
			// just below the retention: merges of unrelated entries run the garbage collection, which
			// must keep the tombstone
			if s.removed {
				if d := time.Until(s.lastRm.Add(retention - 2*time.Second)); d > 0 {
					time.Sleep(d)
				}
				for j := 0; j < n; j++ {
					_ = net.Client(j, k.codec).CAS(context.Background(), k.key, func(in interface{}) (interface{}, bool, error) {
						now := time.Now()
						if k.key == simnet.RingKey {
							d := ring.GetOrCreateRingDesc(in)
							id := fmt.Sprintf("y%d", j)
							d.Ingesters[id] = ring.InstanceDesc{Id: id, Addr: id, State: ring.ACTIVE, Timestamp: now.Unix(), Tokens: []uint32{uint32(1000 + j)}}
							return d, false, nil
						}
						d := ring.GetOrCreatePartitionRingDesc(in)
						d.AddOrUpdateOwner(fmt.Sprintf("oy%d", j), ring.OwnerActive, 9, now)
						return d, false, nil
					})
					synctest.Wait()
					s.collect(j)
				}
				s.stats["near_retention_checks"]++
				s.observe(viol, retention)
			}
			// beyond the retention: a merge garbage-collects; late stale deliveries may resurrect (no alarm)
			time.Sleep(retention + 10*time.Second)
			cas(home, false)
			s.collect(home)
			if len(s.pool) > 0 {
				s.deliver(rng.IntN(n), s.pool[rng.IntN(len(s.pool))])
			}
			s.observe(func(sig, what string, extra map[string]any) {
				if strings.HasPrefix(sig, "tombstone-visible") {
					viol(sig, what, extra)
				}
			}, retention)
		}
		for kk, v := range s.stats {
			run.Count(kk, int64(v))
		}
		run.EvalH(vt.Hash64(k.name+strings.Join(s.journal, ";")+fmt.Sprint(exhaustiveOrder)), s.removed)
		if s.removed && len(s.journal) > 5 && run.WantSample() {
			run.Sample(map[string]any{"kind": k.name, "nodes": n, "retention": retention.String(), "journal": s.journal[:min(len(s.journal), 20)]})
		}
	})
}

func start() time.Time { return time.Date(2000, 1, 1, 0, 0, 0, 0, time.UTC) }

func TestC04(t *testing.T) {
	run := vt.NewRun("C04", "exploration")
	run.SetRule("case = one script on 2-4 gossip KV nodes (detached from the transport) under the synctest virtual clock, for an instance of the instance ring, an owner or a partition of the partition ring: heartbeats/state changes, removal by a local update on any node (same second as the last heartbeat or seconds later), every message and full-state dump ever produced kept in a pool and (re)delivered to any node at any later time below the tombstone retention, full-state exchanges; after every step each node's reader and watcher are compared with the newest update (newest stamp, removal wins a tie) among what that node has merged: a removed entry never reappears, readers and watchers never see a tombstone, the stored state keeps the tombstone while younger than the retention, the first merge of a tombstone queues a broadcast carrying it; after the retention stale deliveries may resurrect (not judged). A second generator enumerates all delivery sequences (length <= 4, with repetition) of {heartbeat1, heartbeat2, removal, full state} to an observer node; in half of all cases every node already holds the key with unrelated entries (a node without any value stores the first update without merging). non-trivial = the script contains a removal; distinct by journal.")
	// exhaustive delivery sequences over 4 messages, length 1..4
	var seqs [][]int
	var rec func(cur []int)
	rec = func(cur []int) {
		if len(cur) > 0 {
			seqs = append(seqs, append([]int(nil), cur...))
		}
		if len(cur) == 4 {
			return
		}
		for m := 0; m < 4; m++ {
			rec(append(cur, m))
		}
	}
	rec(nil)
	run.SetExtra("enumerated_delivery_sequences", len(seqs))
	reps := 12 // x3 entry kinds x2 removal timing x2 (nodes empty / nodes already holding the key with unrelated entries)
	run.ForEachT(t, "orders", len(seqs)*reps, func(t *testing.T, c vt.CaseID, rng *rand.Rand, s *vt.Slot) {
		s.Enter(c, "crash/orders")
		runScript(t, run, c, rng, seqs[int(c.Idx)/reps])
		s.Leave()
	})
	run.ForEachT(t, "scripts", vt.N(2500, 80000), func(t *testing.T, c vt.CaseID, rng *rand.Rand, s *vt.Slot) {
		s.Enter(c, "crash/scripts")
		runScript(t, run, c, rng, nil)
		s.Leave()
	})
	if vt.GenEnabled("scripts") {
		if _, ok := vt.ReplayCase(); !ok && (run.Counter("removals") == 0 || run.Counter("redeliveries") == 0) {
			run.Inconclusive("no removal or no re-delivery happened")
		}
	}
	run.Finish(t)
}
