package c19

import (
	"bytes"
	"context"
	"errors"
	"fmt"
	"math/rand/v2"
	"net"
	"sort"
	"strings"
	"sync"
	"testing"
	"testing/synctest"
	"time"

	"github.com/go-kit/log"
	"github.com/golang/snappy"

	"github.com/grafana/dskit/cache"

	"verifharness/vt"
)

// recorder sits directly above the bottom backend: it sees raw keys and logs when
// the backend served a key (= a possible back-fill moment for an in-memory layer).
type recorder struct {
	next cache.Cache
	mu   sync.Mutex
	// raw keys written/deleted/read during the current logical operation
	touched []string
	served  map[string]time.Time // raw key -> last time the backend returned it
}

func (r *recorder) touch(k string) { r.mu.Lock(); r.touched = append(r.touched, k); r.mu.Unlock() }
func (r *recorder) SetAsync(key string, value []byte, ttl time.Duration) {
	r.touch(key)
	r.next.SetAsync(key, value, ttl)
}
func (r *recorder) SetMultiAsync(data map[string][]byte, ttl time.Duration) {
	for k := range data {
		r.touch(k)
	}
	r.next.SetMultiAsync(data, ttl)
}
func (r *recorder) Set(ctx context.Context, key string, value []byte, ttl time.Duration) error {
	r.touch(key)
	return r.next.Set(ctx, key, value, ttl)
}
func (r *recorder) Add(ctx context.Context, key string, value []byte, ttl time.Duration) error {
	r.touch(key)
	return r.next.Add(ctx, key, value, ttl)
}
func (r *recorder) GetMulti(ctx context.Context, keys []string, opts ...cache.Option) map[string][]byte {
	res, _ := r.GetMultiWithError(ctx, keys, opts...)
	return res
}
func (r *recorder) GetMultiWithError(ctx context.Context, keys []string, opts ...cache.Option) (map[string][]byte, error) {
	res, err := r.next.GetMultiWithError(ctx, keys, opts...)
	r.mu.Lock()
	for k := range res {
		r.served[k] = time.Now()
	}
	r.mu.Unlock()
	return res, err
}
func (r *recorder) Delete(ctx context.Context, key string) error {
	r.touch(key)
	return r.next.Delete(ctx, key)
}
func (r *recorder) Stop()        {}
func (r *recorder) Name() string { return "recorder" }

type entry struct {
	val     []byte
	stored  time.Time
	ttl     time.Duration
	rawKeys []string
	deleted bool
}

type stackCase struct {
	Order      []string      `json:"stack_top_to_bottom"`
	LRUSize    int           `json:"lru_size"`
	DefaultTTL time.Duration `json:"lru_default_ttl"`
}

func valuePool(rng *rand.Rand) [][]byte {
	inc := make([]byte, 4096)
	for i := range inc {
		inc[i] = byte(rng.UintN(256))
	}
	comp := bytes.Repeat([]byte("abcdefgh"), 8192)
	looks := snappy.Encode(nil, []byte("looks like a snappy block"))
	return [][]byte{{}, {0x7f}, inc, comp, looks, []byte("plain"), {0xff, 0x06, 0x00, 0x00, 's', 'N', 'a', 'P', 'p', 'Y'}}
}

var keyPool = []string{"a", "b", "1@a", "2@a", "@", "1@1@a", "0@a", "10@a", "1@"}

// pairs of versions sharing the layers below (version 0 is a version like any other; 1 is a prefix of 10 and 11)
var versionPairs = [][]uint{{1, 2}, {0, 1}, {2, 0}, {1, 10}, {11, 1}, {0, 10}}

func runStack(t *testing.T, run *vt.Run, c vt.CaseID, rng *rand.Rand, sc stackCase) {
	synctest.Test(t, func(t *testing.T) {
		mock := cache.NewMockCache()
		rec := &recorder{next: mock, served: map[string]time.Time{}}
		logger := log.NewNopLogger()
		// build bottom-up; layers below Versioned are shared by both versions
		type client struct {
			c   cache.Cache
			ver uint
		}
		var shared cache.Cache = rec
		idx := len(sc.Order) - 1
		hasLRU := false
		for ; idx >= 0 && sc.Order[idx] != "versioned"; idx-- {
			shared = wrap(sc.Order[idx], shared, sc, logger, "shared")
			if sc.Order[idx] == "lru" {
				hasLRU = true
			}
		}
		var clients []client
		if idx < 0 {
			clients = []client{{shared, 0}}
		} else {
			for _, ver := range versionPairs[rng.IntN(len(versionPairs))] {
				var cc cache.Cache = cache.NewVersioned(shared, ver, logger)
				for j := idx - 1; j >= 0; j-- {
					cc = wrap(sc.Order[j], cc, sc, logger, fmt.Sprintf("v%d", ver))
					if sc.Order[j] == "lru" {
						hasLRU = true
					}
				}
				clients = append(clients, client{cc, ver})
			}
		}
		vals := valuePool(rng)
		model := map[string]*entry{} // "ver|key"
		var oplog []string
		ctx := context.Background()
		viol := func(sig, what string, extra map[string]any) {
			d := map[string]any{"stack": sc, "ops": oplog}
			for k, v := range extra {
				d[k] = v
			}
			run.Violation(c, sig, what, d)
		}
		store := func(ci int, key string, val []byte, ttl time.Duration) {
			rec.mu.Lock()
			raws := append([]string(nil), rec.touched...)
			rec.mu.Unlock()
			model[fmt.Sprintf("%d|%s", ci, key)] = &entry{val: val, stored: time.Now(), ttl: ttl, rawKeys: raws}
		}
		nops := 20 + rng.IntN(45)
		for op := 0; op < nops; op++ {
			ci := rng.IntN(len(clients))
			cl := clients[ci]
			key := keyPool[rng.IntN(4+rng.IntN(6))]
			val := vals[rng.IntN(len(vals))]
			// unique suffix now and then so that "most recent" is unambiguous
			if rng.IntN(2) == 0 {
				val = append(append([]byte(nil), val...), []byte(fmt.Sprintf("#%d", op))...)
			}
			ttl := time.Duration(1+rng.IntN(120)) * time.Second
			nonPositive := rng.IntN(12) == 0
			if nonPositive {
				// a zero or negative time-to-live is legal: the entry is stored and has expired already; it
				// must still replace whatever was stored under the key before
				ttl = []time.Duration{0, -time.Minute}[rng.IntN(2)]
			}
			rec.mu.Lock()
			rec.touched = nil
			rec.mu.Unlock()
			switch r := rng.IntN(12); {
			case r == 0:
				cl.c.Set(ctx, key, val, ttl)
				store(ci, key, val, ttl)
				oplog = append(oplog, fmt.Sprintf("v%d Set %q len=%d ttl=%v", cl.ver, key, len(val), ttl))
			case r == 1:
				cl.c.SetAsync(key, val, ttl)
				store(ci, key, val, ttl)
				oplog = append(oplog, fmt.Sprintf("v%d SetAsync %q len=%d ttl=%v", cl.ver, key, len(val), ttl))
			case r == 2:
				k2 := keyPool[rng.IntN(len(keyPool))]
				data := map[string][]byte{key: val}
				if k2 != key {
					data[k2] = vals[rng.IntN(len(vals))]
				}
				cl.c.SetMultiAsync(data, ttl)
				for k, v := range data {
					rec.mu.Lock()
					var raws []string
					for _, rk := range rec.touched {
						if strings.HasSuffix(rk, k) {
							raws = append(raws, rk)
						}
					}
					rec.mu.Unlock()
					model[fmt.Sprintf("%d|%s", ci, k)] = &entry{val: v, stored: time.Now(), ttl: ttl, rawKeys: raws}
				}
				oplog = append(oplog, fmt.Sprintf("v%d SetMultiAsync %d keys ttl=%v", cl.ver, len(data), ttl))
			case r == 3:
				if nonPositive {
					ttl = time.Duration(1+rng.IntN(120)) * time.Second // Add keeps positive lifetimes
				}
				err := cl.c.Add(ctx, key, val, ttl)
				if err == nil {
					store(ci, key, val, ttl)
				} else if !errors.Is(err, cache.ErrNotStored) {
					viol("add-unexpected-error", "Add returned an unexpected error: "+err.Error(), nil)
				}
				oplog = append(oplog, fmt.Sprintf("v%d Add %q len=%d ttl=%v -> %v", cl.ver, key, len(val), ttl, err))
			case r == 4:
				cl.c.Delete(ctx, key)
				if e := model[fmt.Sprintf("%d|%s", ci, key)]; e != nil {
					e.deleted = true
				}
				oplog = append(oplog, fmt.Sprintf("v%d Delete %q", cl.ver, key))
			case r <= 6:
				var d time.Duration
				switch rng.IntN(3) {
				case 0:
					d = time.Duration(1+rng.IntN(5)) * time.Second
				case 1:
					d = time.Duration(30+rng.IntN(100)) * time.Second
				default:
					d = 10*time.Minute + sc.DefaultTTL
				}
				time.Sleep(d)
				mock.Advance(d)
				oplog = append(oplog, fmt.Sprintf("advance %v", d))
			default:
				// GetMulti of a subset
				var keys []string
				for _, k := range keyPool {
					if rng.IntN(2) == 0 {
						keys = append(keys, k)
					}
				}
				if len(keys) == 0 {
					keys = []string{key}
				}
				var got map[string][]byte
				if rng.IntN(2) == 0 {
					got = cl.c.GetMulti(ctx, keys)
				} else {
					got, _ = cl.c.GetMultiWithError(ctx, keys)
				}
				now := time.Now()
				oplog = append(oplog, fmt.Sprintf("v%d GetMulti %v -> %d hits", cl.ver, keys, len(got)))
				for k, b := range got {
					asked := false
					for _, q := range keys {
						if q == k {
							asked = true
						}
					}
					if !asked {
						viol("get/unrequested-key", fmt.Sprintf("GetMulti returned key %q that was not requested", k), map[string]any{"requested": keys})
						continue
					}
					e := model[fmt.Sprintf("%d|%s", ci, k)]
					run.Count("hits", 1)
					switch {
					case e == nil:
						// is it another version's value?
						sig := "get/value-never-stored"
						for oc := range clients {
							if o := model[fmt.Sprintf("%d|%s", oc, k)]; o != nil && oc != ci {
								sig = "get/versions-alias"
							}
						}
						viol(sig, fmt.Sprintf("v%d key %q returned a value although nothing was stored under that key and version", cl.ver, k), map[string]any{"value_len": len(b)})
					case e.deleted:
						viol("get/value-after-delete", fmt.Sprintf("v%d key %q returned a value after its deletion", cl.ver, k), nil)
					case !bytes.Equal(b, e.val):
						sig := "get/stale-or-wrong-bytes"
						for oc := range clients {
							if o := model[fmt.Sprintf("%d|%s", oc, k)]; o != nil && oc != ci && bytes.Equal(o.val, b) {
								sig = "get/versions-alias"
							}
						}
						viol(sig, fmt.Sprintf("v%d key %q returned %d bytes that differ from the %d bytes most recently stored", cl.ver, k, len(b), len(e.val)), map[string]any{"got_prefix": fmt.Sprintf("%x", b[:min(16, len(b))]), "want_prefix": fmt.Sprintf("%x", e.val[:min(16, len(e.val))])})
					default:
						// expiry: later of item TTL and (last observed backend serve + in-memory default TTL)
						limit := e.stored.Add(e.ttl)
						if hasLRU {
							rec.mu.Lock()
							for _, rk := range e.rawKeys {
								if s, ok := rec.served[rk]; ok && !s.Before(e.stored) {
									if l2 := s.Add(sc.DefaultTTL); l2.After(limit) {
										limit = l2
									}
								}
							}
							rec.mu.Unlock()
						}
						if !now.Before(limit) {
							viol("get/expired-value", fmt.Sprintf("v%d key %q served %v after store with ttl %v (limit passed %v ago)", cl.ver, k, now.Sub(e.stored), e.ttl, now.Sub(limit)), nil)
						}
					}
				}
			}
		}
		run.EvalH(vt.Hash64(fmt.Sprintf("%+v|%s", sc, strings.Join(oplog, ";"))), len(sc.Order) > 1)
		if len(sc.Order) == 3 && run.WantSample() {
			run.Sample(map[string]any{"kind": "stack", "stack": sc, "ops": oplog[:min(len(oplog), 25)]})
		}
	})
}

func wrap(kind string, next cache.Cache, sc stackCase, logger log.Logger, name string) cache.Cache {
	switch kind {
	case "lru":
		l, err := cache.WrapWithLRUCache(next, name, nil, sc.LRUSize, sc.DefaultTTL, logger)
		if err != nil {
			panic(err)
		}
		return l
	case "snappy":
		return cache.NewSnappy(next, logger)
	}
	panic("unknown layer " + kind)
}

func allOrders() [][]string {
	layers := []string{"lru", "versioned", "snappy"}
	var out [][]string
	// every non-empty subset, every permutation
	for mask := 1; mask < 8; mask++ {
		var sub []string
		for i, l := range layers {
			if mask>>i&1 == 1 {
				sub = append(sub, l)
			}
		}
		var perm func(k int)
		perm = func(k int) {
			if k == len(sub) {
				out = append(out, append([]string(nil), sub...))
				return
			}
			for i := k; i < len(sub); i++ {
				sub[k], sub[i] = sub[i], sub[k]
				perm(k + 1)
				sub[k], sub[i] = sub[i], sub[k]
			}
		}
		perm(0)
	}
	return out
}

func TestC19(t *testing.T) {
	run := vt.NewRun("C19", "exploration")
	run.SetRule("case = one sequential operation script (Set, SetAsync, SetMultiAsync, Add, Delete, GetMulti/GetMultiWithError of key subsets, clock advances small / ~TTL / beyond TTL+default) through one stacking order of {in-memory LRU (sizes 1,2,8), Versioned (two versions sharing the layers below), Snappy} over a recording proxy over MockCache, under the synctest virtual clock (backend clock advanced in lock-step); every returned value is judged against a map-with-expiry model: bytes equal the most recent store under that key and version, nothing after delete, not later than max(store+TTL, last observed backend serve + in-memory default TTL), no aliasing between versions, only requested keys. Plus memcached selector cases: same servers in shuffled order pick the same server for 10^4 keys; appending a server that sorts last moves keys only to it. non-trivial = stack of >= 2 wrappers / >= 2 servers; distinct by (stack, script) / (server list).")
	orders := allOrders()
	run.SetExtra("stacking_orders", len(orders))
	run.ForEachT(t, "stacks", vt.N(3000, 120000), func(t *testing.T, c vt.CaseID, rng *rand.Rand, s *vt.Slot) {
		sc := stackCase{Order: orders[int(c.Idx)%len(orders)], LRUSize: []int{1, 2, 8}[rng.IntN(3)], DefaultTTL: time.Duration([]int{5, 60, 300}[rng.IntN(3)]) * time.Second}
		s.Enter(c, "crash/stacks")
		runStack(t, run, c, rng, sc)
		s.Leave()
	})
	if run.Counter("hits") == 0 && vt.GenEnabled("stacks") {
		if _, ok := vt.ReplayCase(); !ok {
			run.Inconclusive("no cache hit was observed")
		}
	}

	run.ForEach("selector", vt.N(150, 4000), func(c vt.CaseID, rng *rand.Rand, s *vt.Slot) {
		n := 1 + rng.IntN(64)
		var servers []string
		seen := map[string]bool{}
		// half of the lists are numbered replicas (10.0.0.<i> or port 9990+<i>), where natural and byte-wise order differ
		numbered := rng.IntN(2) == 0
		numStyle := rng.IntN(2)
		numName := func(i int) string {
			if numStyle == 0 {
				return fmt.Sprintf("10.0.0.%d:11211", i)
			}
			return fmt.Sprintf("10.2.3.4:%d", 9990+i)
		}
		maxNum := -1
		for numbered && len(servers) < n {
			i := rng.IntN(120)
			if sv := numName(i); !seen[sv] {
				seen[sv] = true
				servers = append(servers, sv)
				maxNum = max(maxNum, i)
			}
		}
		for len(servers) < n {
			var sv string
			switch rng.IntN(3) {
			case 0:
				sv = fmt.Sprintf("10.0.%d.%d:11211", rng.IntN(3), rng.IntN(256))
			case 1:
				sv = fmt.Sprintf("10.1.0.%d:%d", rng.IntN(20), 11211+rng.IntN(3))
			default:
				sv = fmt.Sprintf("192.168.%d.%d:11211", rng.IntN(256), rng.IntN(256))
			}
			if !seen[sv] {
				seen[sv] = true
				servers = append(servers, sv)
			}
		}
		mk := func(list []string) (*cache.MemcachedJumpHashSelector, []string) {
			sel := &cache.MemcachedJumpHashSelector{}
			if err := sel.SetServers(list...); err != nil {
				run.Violation(c, "selector/set-servers-failed", err.Error(), map[string]any{"servers": list})
				return nil, nil
			}
			var order []string
			sel.Each(func(a net.Addr) error { order = append(order, a.String()); return nil })
			return sel, order
		}
		a, orderA := mk(servers)
		sh := append([]string(nil), servers...)
		rng.Shuffle(len(sh), func(i, j int) { sh[i], sh[j] = sh[j], sh[i] })
		b, orderB := mk(sh)
		if a == nil || b == nil {
			return
		}
		if fmt.Sprint(orderA) != fmt.Sprint(orderB) {
			run.Violation(c, "selector/order-depends-on-input-order", "the same servers given in another order are arranged differently", map[string]any{"a": orderA, "b": orderB})
		}
		// the arrangement is the natural sort of the list (digit runs compare as numbers), whatever the input order
		wantOrder := append([]string(nil), servers...)
		sort.Slice(wantOrder, func(i, j int) bool { return naturalLess(wantOrder[i], wantOrder[j]) })
		if fmt.Sprint(orderA) != fmt.Sprint(wantOrder) {
			run.Violation(c, "selector/not-naturally-sorted", "the servers are not arranged in natural order", map[string]any{"arranged": orderA, "natural_order": wantOrder})
			return
		}
		// append a server that sorts last in natural order: only keys that move go to it
		extra := fmt.Sprintf("250.%d.%d.%d:11211", rng.IntN(256), rng.IntN(256), rng.IntN(256))
		if numbered {
			extra = numName(maxNum + 1 + rng.IntN(3)) // e.g. .10 after .9, .100 after .99: not last byte-wise
		}
		bigger := append(append([]string(nil), sh...), extra)
		rng.Shuffle(len(bigger), func(i, j int) { bigger[i], bigger[j] = bigger[j], bigger[i] })
		cc, orderC := mk(bigger)
		appendOK := cc != nil
		if cc != nil && !(len(orderC) == len(orderA)+1 && orderC[len(orderC)-1] == extra && fmt.Sprint(orderC[:len(orderA)]) == fmt.Sprint(orderA)) {
			run.Violation(c, "selector/not-naturally-sorted", fmt.Sprintf("after adding %s, which is last in natural order, the arrangement is not the old one followed by it", extra), map[string]any{"before": orderA, "after": orderC})
			return
		}
		moved, movedToNew := 0, 0
		for k := 0; k < 10000; k++ {
			key := fmt.Sprintf("key-%d-%d", c.Idx, rng.Uint64())
			pa, ea := a.PickServer(key)
			pb, eb := b.PickServer(key)
			pa2, _ := a.PickServer(key)
			if ea != nil || eb != nil || pa.String() != pb.String() || pa.String() != pa2.String() {
				run.Violation(c, "selector/not-deterministic", fmt.Sprintf("key %q picks %v / %v / %v on the same server set", key, pa, pb, pa2), map[string]any{"servers": servers})
				break
			}
			if appendOK {
				pc, _ := cc.PickServer(key)
				if pc.String() != pa.String() {
					moved++
					if pc.String() == extra {
						movedToNew++
					} else {
						run.Violation(c, "selector/key-moved-between-old-servers", fmt.Sprintf("after appending %s key %q moved from %v to %v", extra, key, pa, pc), map[string]any{"servers": orderA})
						break
					}
				}
			}
		}
		run.Count("selector_keys_moved_to_new_server", int64(movedToNew))
		run.EvalH(vt.Hash64(fmt.Sprint(orderA)), n > 1)
		if c.Idx == 3 {
			run.Sample(map[string]any{"kind": "selector", "servers": len(servers), "append_observed_last": appendOK, "keys_moved_to_new": movedToNew, "keys_moved": moved})
		}
		_ = sort.Strings
	})
	run.Finish(t)
}

// naturalLess is the harness's own reading of "natural order": the strings are cut into runs of digits and runs of
// other bytes; runs are compared pairwise, digit runs by numeric value (then by length), other runs byte-wise.
func naturalLess(a, b string) bool {
	chunks := func(s string) []string {
		var out []string
		for i := 0; i < len(s); {
			j := i
			dig := s[i] >= '0' && s[i] <= '9'
			for j < len(s) && (s[j] >= '0' && s[j] <= '9') == dig {
				j++
			}
			out = append(out, s[i:j])
			i = j
		}
		return out
	}
	ca, cb := chunks(a), chunks(b)
	for i := 0; i < len(ca) && i < len(cb); i++ {
		x, y := ca[i], cb[i]
		if x == y {
			continue
		}
		dx, dy := x[0] >= '0' && x[0] <= '9', y[0] >= '0' && y[0] <= '9'
		if dx && dy {
			tx, ty := strings.TrimLeft(x, "0"), strings.TrimLeft(y, "0")
			if len(tx) != len(ty) {
				return len(tx) < len(ty)
			}
			if tx != ty {
				return tx < ty
			}
			return len(x) < len(y)
		}
		return x < y
	}
	return len(ca) < len(cb)
}
