package c15

import (
	"context"
	"errors"
	"fmt"
	"math/rand/v2"
	"sort"
	"strings"
	"testing"
	"testing/synctest"
	"time"

	"github.com/go-kit/log"

	"github.com/grafana/dskit/ring"
	"github.com/grafana/dskit/services"

	"verifharness/recstore"
	"verifharness/rk"
	"verifharness/spec"
	"verifharness/vt"
)

const maxTok = 4294967295

var alpha = []uint32{0, 1, 2, 3, 1 << 31, maxTok - 2, maxTok - 1, maxTok}

// ---- routing ------------------------------------------------------------------

func routingCase(run *vt.Run, c vt.CaseID, rng *rand.Rand) {
	np := 1 + rng.IntN(20)
	d := ring.NewPartitionRingDesc()
	states := []ring.PartitionState{ring.PartitionActive, ring.PartitionActive, ring.PartitionInactive, ring.PartitionPending}
	allInactive := rng.IntN(12) == 0
	used := map[uint32]bool{}
	insts := map[string]spec.Inst{}
	gen := rng.IntN(4) == 0
	for p := 0; p < np; p++ {
		st := states[rng.IntN(len(states))]
		if allInactive {
			st = []ring.PartitionState{ring.PartitionInactive, ring.PartitionPending}[rng.IntN(2)]
		}
		if gen {
			d.AddPartition(int32(p), st, time.Unix(1, 0))
		} else {
			var toks []uint32
			for n := 1 + rng.IntN(4); len(toks) < n; {
				x := rng.Uint32()
				if rng.IntN(2) == 0 {
					x = alpha[rng.IntN(len(alpha))]
				}
				if !used[x] {
					used[x] = true
					toks = append(toks, x)
				}
			}
			sort.Slice(toks, func(i, j int) bool { return toks[i] < toks[j] })
			d.Partitions[int32(p)] = ring.PartitionDesc{Id: int32(p), Tokens: toks, State: st, StateTimestamp: 1}
		}
		pd := d.Partitions[int32(p)]
		sst := spec.ACTIVE
		if pd.State != ring.PartitionActive {
			sst = spec.LEAVING // anything but ACTIVE
		}
		insts[fmt.Sprint(p)] = spec.Inst{ID: fmt.Sprint(p), Tokens: pd.Tokens, State: sst}
	}
	pr, err := ring.NewPartitionRing(*d)
	if err != nil {
		run.Violation(c, "routing/ring-build-failed", err.Error(), nil)
		return
	}
	keys := map[uint32]bool{0: true, maxTok: true}
	for _, in := range insts {
		for i, t := range in.Tokens {
			if gen && i%40 != 0 {
				continue
			}
			keys[t], keys[t-1], keys[t+1] = true, true, true
		}
	}
	for i := 0; i < 10; i++ {
		keys[rng.Uint32()] = true
	}
	var klist []uint32
	for k := range keys {
		klist = append(klist, k)
	}
	sort.Slice(klist, func(i, j int) bool { return klist[i] < klist[j] })
	dsig := vt.Hash64(fmt.Sprint(d.Partitions))
	anyActive := false
	mixed := false
	for _, in := range insts {
		if in.State == spec.ACTIVE {
			anyActive = true
		} else {
			mixed = true
		}
	}
	want := map[uint32]string{}
	for _, k := range klist {
		w := spec.OwnerOfKey(insts, k, func(in spec.Inst) bool { return in.State == spec.ACTIVE })
		want[k] = w
		got, err := pr.ActivePartitionForKey(k)
		run.EvalH(vt.Mix(dsig, uint64(k)), mixed)
		switch {
		case !anyActive && err == nil:
			run.Violation(c, "routing/no-error-without-active-partition", fmt.Sprintf("key %d routed to %d although no partition is active", k, got), map[string]any{"partitions": fmt.Sprint(d.Partitions)})
		case anyActive && err != nil:
			run.Violation(c, "routing/error-with-active-partition", fmt.Sprintf("key %d: %v although a partition is active", k, err), map[string]any{"partitions": fmt.Sprint(d.Partitions)})
		case anyActive && fmt.Sprint(got) != w:
			run.Violation(c, "routing/wrong-partition", fmt.Sprintf("key %d routed to partition %d, the first token after it among active partitions belongs to %s", k, got, w), map[string]any{"partitions": fmt.Sprint(d.Partitions), "key": k})
		}
	}
	// batch routing must agree with per-key routing
	br := ring.NewActivePartitionBatchRing(pr)
	res, err := br.GetKeysByPartition(context.Background(), klist)
	if anyActive {
		if err != nil {
			run.Violation(c, "routing/batch-error", err.Error(), nil)
		} else {
			seen := map[int]bool{}
			for _, pk := range res {
				for _, ix := range pk.Indexes {
					if seen[ix] {
						run.Violation(c, "routing/batch-index-twice", "GetKeysByPartition returned a key index twice", nil)
					}
					seen[ix] = true
					if want[klist[ix]] != fmt.Sprint(pk.PartitionID) {
						run.Violation(c, "routing/batch-disagrees", fmt.Sprintf("GetKeysByPartition assigns key %d to %d, per-key routing to %s", klist[ix], pk.PartitionID, want[klist[ix]]), nil)
					}
				}
			}
			if len(seen) != len(klist) {
				run.Violation(c, "routing/batch-lost-keys", fmt.Sprintf("GetKeysByPartition returned %d of %d keys", len(seen), len(klist)), nil)
			}
		}
	} else if err == nil {
		run.Violation(c, "routing/batch-no-error-without-active-partition", "GetKeysByPartition succeeded without an active partition", nil)
	}
	if c.Idx < 3 {
		run.Sample(map[string]any{"kind": "routing", "partitions": np, "active_any": anyActive, "keys": len(klist)})
	}
}

// ---- histories ----------------------------------------------------------------

const pkey = "partition-ring"

type lcfg struct {
	Name        string        `json:"name"`
	Partition   int32         `json:"partition"`
	Multi       bool          `json:"multi_partition_ownership"`
	WaitCount   int           `json:"wait_owners_count"`
	WaitDur     time.Duration `json:"wait_owners_duration"`
	DeleteAfter time.Duration `json:"delete_inactive_after"`
	CreateOnUp  bool          `json:"create_partition_on_startup"`
	RemoveOwner bool          `json:"remove_owner_on_shutdown"`
}

func historyCase(t *testing.T, run *vt.Run, c vt.CaseID, rng *rand.Rand) {
	synctest.Test(t, func(t *testing.T) {
		st := recstore.New(ring.GetPartitionRingCodec())
		st.RecordGets = false
		nl := 1 + rng.IntN(4)
		var cfgs []lcfg
		var lcs []*ring.PartitionInstanceLifecycler
		waits := []time.Duration{0, 5 * time.Second, 10 * time.Second, 7 * time.Second}
		dels := []time.Duration{0, 20 * time.Second, 60 * time.Second, 15 * time.Second}
		multi := rng.IntN(3) == 0
		raced := 0
		for i := 0; i < nl; i++ {
			lc := lcfg{Name: fmt.Sprintf("L%d", i), Partition: int32(rng.IntN(3)), Multi: multi, WaitCount: rng.IntN(3), WaitDur: waits[rng.IntN(len(waits))], DeleteAfter: dels[rng.IntN(len(dels))], CreateOnUp: rng.IntN(5) != 0, RemoveOwner: rng.IntN(2) == 0}
			cfgs = append(cfgs, lc)
			l := ring.NewPartitionInstanceLifecycler(ring.PartitionInstanceLifecyclerConfig{
				PartitionID: lc.Partition, InstanceID: "inst-" + lc.Name, MultiPartitionOwnership: lc.Multi,
				WaitOwnersCountOnPending: lc.WaitCount, WaitOwnersDurationOnPending: lc.WaitDur,
				DeleteInactivePartitionAfterDuration: lc.DeleteAfter, PollingInterval: 5 * time.Second,
			}, "verif", pkey, lcHandle(st, lc, rng.IntN(3) == 0, &raced), log.NewNopLogger(), nil)
			l.SetCreatePartitionOnStartup(lc.CreateOnUp)
			l.SetRemoveOwnerOnShutdown(lc.RemoveOwner)
			lcs = append(lcs, l)
		}
		editor := ring.NewPartitionRingEditor(pkey, st.Client("editor"))
		var acts []string
		explicit := map[int]bool{} // version numbers committed during explicit state-change actions
		started := map[int]bool{}
		stopped := map[int]bool{}
		ctx := context.Background()
		viol := func(sig, what string, extra map[string]any) {
			d := map[string]any{"lifecyclers": cfgs, "actions": acts}
			for k, v := range extra {
				d[k] = v
			}
			run.Violation(c, "history/"+sig, what, d)
		}
		current := func() *ring.PartitionRingDesc {
			v, _ := st.Client("harness").Get(ctx, pkey)
			return ring.GetOrCreatePartitionRingDesc(v)
		}
		steps := 12 + rng.IntN(30)
		for step := 0; step < steps; step++ {
			before := st.CurrentVersion(pkey)
			isExplicit := false
			switch r := rng.IntN(14); {
			case r <= 1:
				i := rng.IntN(nl)
				if !started[i] {
					started[i] = true
					_ = lcs[i].StartAsync(ctx)
					acts = append(acts, fmt.Sprintf("t=%v start %s", time.Since(t0()), cfgs[i].Name))
				}
			case r == 2:
				i := rng.IntN(nl)
				if started[i] && !stopped[i] {
					stopped[i] = true
					lcs[i].StopAsync()
					acts = append(acts, fmt.Sprintf("t=%v stop %s", time.Since(t0()), cfgs[i].Name))
				}
			case r <= 5: // editor state change (legal or not)
				isExplicit = true
				pid := int32(rng.IntN(3))
				to := ring.PartitionState(1 + rng.IntN(3))
				if rng.IntN(5) == 0 {
					to = []ring.PartitionState{ring.PartitionUnknown, ring.PartitionDeleted}[rng.IntN(2)] // never a legal target
				}
				cur := current()
				p, exists := cur.Partitions[pid]
				err := editor.ChangePartitionState(ctx, pid, to)
				acts = append(acts, fmt.Sprintf("t=%v editor state p%d -> %v: %v", time.Since(t0()), pid, to, err))
				if exists {
					legal := p.State == to || (p.State == ring.PartitionPending && (to == ring.PartitionActive || to == ring.PartitionInactive)) || (p.State == ring.PartitionActive && to == ring.PartitionInactive) || (p.State == ring.PartitionInactive && to == ring.PartitionActive)
					if (!legal || (p.StateChangeLocked && p.State != to)) && err == nil {
						viol("illegal-change-accepted", fmt.Sprintf("editor changed partition %d from %v to %v (locked=%v) without error", pid, p.State, to, p.StateChangeLocked), nil)
					}
				}
			case r == 6: // state change through a running lifecycler
				i := rng.IntN(nl)
				if started[i] && !stopped[i] && lcs[i].State() == services.Running {
					isExplicit = true
					to := ring.PartitionState(1 + rng.IntN(3))
					if rng.IntN(5) == 0 {
						to = []ring.PartitionState{ring.PartitionUnknown, ring.PartitionDeleted}[rng.IntN(2)] // never a legal target
					}
					cctx, cancel := context.WithTimeout(ctx, time.Second)
					err := lcs[i].ChangePartitionState(cctx, to)
					cancel()
					acts = append(acts, fmt.Sprintf("t=%v %s.ChangePartitionState(%v): %v", time.Since(t0()), cfgs[i].Name, to, err))
				}
			case r == 7:
				pid := int32(rng.IntN(3))
				lock := rng.IntN(2) == 0
				err := editor.SetPartitionStateChangeLock(ctx, pid, lock)
				acts = append(acts, fmt.Sprintf("t=%v editor lock p%d=%v: %v", time.Since(t0()), pid, lock, err))
			case r == 8 && multi:
				i := rng.IntN(nl)
				err := editor.RemoveMultiPartitionOwner(ctx, "inst-"+cfgs[i].Name, cfgs[i].Partition)
				acts = append(acts, fmt.Sprintf("t=%v editor remove owner %s: %v", time.Since(t0()), cfgs[i].Name, err))
			default:
				d := time.Duration(1+rng.IntN(12)) * time.Second
				if rng.IntN(4) == 0 {
					d = time.Duration(20+rng.IntN(60)) * time.Second
				}
				time.Sleep(d)
				acts = append(acts, fmt.Sprintf("t=%v advanced %v", time.Since(t0()), d))
			}
			synctest.Wait()
			if isExplicit {
				for v := before + 1; v <= st.CurrentVersion(pkey); v++ {
					explicit[v] = true
				}
			}
		}
		// shut everything down
		for i, l := range lcs {
			if started[i] {
				l.StopAsync()
			}
		}
		synctest.Wait()
		time.Sleep(time.Minute)
		synctest.Wait()
		// ---- the log checker
		vers := st.VersionsOf(pkey)
		byName := map[string]lcfg{}
		for _, lc := range cfgs {
			byName[lc.Name] = lc
		}
		prev := ring.NewPartitionRingDesc()
		edges := 0
		for _, v := range vers {
			cur := ring.GetOrCreatePartitionRingDesc(st.Decode(v))
			T := v.At
			lc, isL := byName[v.Writer]
			for pid, pp := range prev.Partitions {
				cp, still := cur.Partitions[pid]
				if !still {
					// deletion
					edges++
					run.Count("deletions", 1)
					owners := 0
					for _, o := range prev.Owners {
						if o.OwnedPartition == pid {
							owners++
						}
					}
					d := map[string]any{"version": v.N, "writer": v.Writer, "at": T.Sub(t0()).String(), "partition": pid, "previous": fmt.Sprintf("%+v", pp), "owners": owners}
					switch {
					case !isL:
						viol("partition-deleted-by-non-lifecycler", fmt.Sprintf("partition %d removed by %s", pid, v.Writer), d)
					case lc.Partition == pid:
						viol("partition-deleted-by-its-own-lifecycler", fmt.Sprintf("partition %d removed by its own lifecycler %s", pid, v.Writer), d)
					case lc.DeleteAfter <= 0:
						viol("partition-deleted-with-deletion-disabled", fmt.Sprintf("partition %d removed by %s whose delete delay is 0", pid, v.Writer), d)
					case pp.State != ring.PartitionInactive || !(pp.StateTimestamp < T.Add(-lc.DeleteAfter).Unix()):
						viol("partition-deleted-too-early", fmt.Sprintf("partition %d removed by %s while %v since %ds (delay %v)", pid, v.Writer, pp.State, T.Unix()-pp.StateTimestamp, lc.DeleteAfter), d)
					case owners > 0:
						viol("partition-deleted-with-owners", fmt.Sprintf("partition %d removed by %s while it has %d owners", pid, v.Writer, owners), d)
					}
					continue
				}
				if cp.State != pp.State {
					edges++
					run.Count("state_edges", 1)
					d := map[string]any{"version": v.N, "writer": v.Writer, "at": T.Sub(t0()).String(), "partition": pid, "from": pp.State.String(), "to": cp.State.String(), "locked_before": pp.StateChangeLocked}
					legal := (pp.State == ring.PartitionPending && (cp.State == ring.PartitionActive || cp.State == ring.PartitionInactive)) || (pp.State == ring.PartitionActive && cp.State == ring.PartitionInactive) || (pp.State == ring.PartitionInactive && cp.State == ring.PartitionActive)
					if !legal {
						viol("illegal-state-edge", fmt.Sprintf("partition %d went %v -> %v", pid, pp.State, cp.State), d)
					}
					if pp.StateChangeLocked {
						viol("state-changed-while-locked", fmt.Sprintf("partition %d changed state (%v -> %v) although its state was locked", pid, pp.State, cp.State), d)
					}
					if isL && !explicit[v.N] && pp.State == ring.PartitionPending && cp.State == ring.PartitionActive {
						run.Count("auto_promotions", 1)
						n := 0
						for _, o := range prev.Owners {
							if o.OwnedPartition == pid && o.UpdatedTimestamp < T.Add(-lc.WaitDur).Unix() {
								n++
							}
						}
						d["owners_registered_long_enough"] = n
						if lc.Partition != pid {
							viol("promotion-of-foreign-partition", fmt.Sprintf("%s promoted partition %d which it does not own", v.Writer, pid), d)
						}
						if n < lc.WaitCount {
							viol("promotion-too-early", fmt.Sprintf("%s promoted partition %d with %d owners registered for %v, needs %d", v.Writer, pid, n, lc.WaitDur, lc.WaitCount), d)
						}
					}
					if isL && !explicit[v.N] && !(pp.State == ring.PartitionPending && cp.State == ring.PartitionActive) {
						viol("lifecycler-changed-state-on-its-own", fmt.Sprintf("%s changed partition %d %v -> %v without being asked", v.Writer, pid, pp.State, cp.State), d)
					}
				}
			}
			prev = cur
		}
		run.Count("startup_cas_raced_by_another_creator", int64(raced))
		run.EvalH(vt.Hash64(strings.Join(acts, ";")), edges > 0)
		if edges > 1 && run.WantSample() {
			run.Sample(map[string]any{"kind": "history", "lifecyclers": cfgs, "actions": acts, "versions_written": len(vers)})
		}
	})
}

var bubbleT0 = time.Date(2000, 1, 1, 0, 0, 0, 0, time.UTC)

func t0() time.Time { return bubbleT0 }

// lcHandle returns the store client of a lifecycler. With race set, another writer ("racer": a second owner that
// has just created the partition and seen it promoted) commits between the read and the write of the lifecycler's
// first CAS attempt, so the lifecycler's function runs again on a ring in which its partition already exists
// as ACTIVE.
func lcHandle(st *recstore.Store, lc lcfg, race bool, raced *int) *recstore.Handle {
	h := st.Client(lc.Name)
	if !race {
		return h
	}
	h.SetFaults(recstore.Faults{BeforeCommit: func(n int) {
		if n != 1 {
			return
		}
		_ = st.Client("racer").CAS(context.Background(), pkey, func(in interface{}) (interface{}, bool, error) {
			d := ring.GetOrCreatePartitionRingDesc(in)
			if d.HasPartition(lc.Partition) {
				return nil, false, nil
			}
			now := time.Now()
			d.AddPartition(lc.Partition, ring.PartitionActive, now)
			if lc.WaitCount%2 == 0 {
				d.AddOrUpdateOwner("inst-racer", ring.OwnerActive, lc.Partition, now)
			}
			*raced++
			return d, true, nil
		})
	}})
	return h
}

// ---- replication sets -------------------------------------------------------------

type prReader struct{ r *ring.PartitionRing }

func (p prReader) PartitionRing() *ring.PartitionRing { return p.r }

func replicationCase(t *testing.T, run *vt.Run, c vt.CaseID, rng *rand.Rand) {
	synctest.Test(t, func(t *testing.T) {
		now := time.Now().Unix() + 1000
		timeout := int64(60)
		ni := 1 + rng.IntN(8)
		insts := map[string]spec.Inst{}
		for i := 0; i < ni; i++ {
			id := fmt.Sprintf("inst-%d", i)
			stt := spec.ACTIVE
			if rng.IntN(4) == 0 {
				stt = rng.IntN(5)
			}
			hb := now
			if rng.IntN(4) == 0 {
				hb = now - []int64{timeout, timeout + 1, 10 * timeout}[rng.IntN(3)]
			}
			insts[id] = spec.Inst{ID: id, Zone: fmt.Sprintf("z%d", rng.IntN(3)), Tokens: []uint32{uint32(i + 1)}, State: stt, Heartbeat: hb}
		}
		store := rk.NewStore()
		store.RecordGets = false
		store.Put("harness", rk.Key, rk.Desc(insts))
		ir, stop, err := rk.StartRing(rk.Cfg(1, false, time.Duration(timeout)*time.Second), store.Client("ring"), rk.Key)
		if err != nil {
			run.Inconclusive(err.Error())
			return
		}
		defer stop()
		time.Sleep(time.Until(time.Unix(now, 0)))
		multi := rng.IntN(2) == 0
		np := 1 + rng.IntN(5)
		d := ring.NewPartitionRingDesc()
		owners := map[int32][]string{}
		for p := 0; p < np; p++ {
			d.Partitions[int32(p)] = ring.PartitionDesc{Id: int32(p), Tokens: []uint32{uint32(p*100 + 7)}, State: ring.PartitionState(1 + rng.IntN(3)), StateTimestamp: 1}
			for o := rng.IntN(4); o > 0; o-- {
				inst := fmt.Sprintf("inst-%d", rng.IntN(ni+2)) // some owners are unknown to the instance ring
				oid := inst
				if multi {
					oid = fmt.Sprintf("%s/%d", inst, p)
				}
				if _, dup := d.Owners[oid]; dup {
					continue
				}
				st := ring.OwnerActive
				d.Owners[oid] = ring.OwnerDesc{OwnedPartition: int32(p), State: st, UpdatedTimestamp: 1}
				owners[int32(p)] = append(owners[int32(p)], inst)
			}
		}
		pr, err := ring.NewPartitionRing(*d)
		if err != nil {
			run.Violation(c, "replication/ring-build-failed", err.Error(), nil)
			return
		}
		ops := []struct {
			op ring.Operation
			sp spec.Op
		}{{ring.Read, spec.OpRead}, {ring.Write, spec.OpWrite}, {ring.Reporting, spec.OpReporting}}
		o := ops[rng.IntN(len(ops))]
		healthyOwners := func(p int32) []string {
			var h []string
			for _, id := range owners[p] {
				in, ok := insts[id]
				if ok && o.sp.Healthy[in.State] && now-in.Heartbeat <= timeout {
					h = append(h, id)
				}
			}
			sort.Strings(h)
			return h
		}
		detail := map[string]any{"instances": insts, "owners": owners, "op": o.sp.Name, "multi": multi}
		if !multi {
			pir := ring.NewPartitionInstanceRing(prReader{pr}, ir, time.Duration(timeout)*time.Second)
			sets, err := pir.GetReplicationSetsForOperation(o.op)
			anyEmpty := false
			for p := 0; p < np; p++ {
				if len(healthyOwners(int32(p))) == 0 {
					anyEmpty = true
				}
			}
			run.EvalH(vt.Hash64(fmt.Sprint(insts, owners, o.sp.Name)), anyEmpty || np > 1)
			if anyEmpty != (err != nil) {
				run.Violation(c, "replication/error-presence", fmt.Sprintf("GetReplicationSetsForOperation error=%v, a partition without healthy owner exists=%v", err, anyEmpty), detail)
				return
			}
			if err == nil {
				var got, want []string
				for _, s := range sets {
					got = append(got, fmt.Sprint(rk.IDs(s)))
				}
				for p := 0; p < np; p++ {
					want = append(want, fmt.Sprint(healthyOwners(int32(p))))
				}
				sort.Strings(got)
				sort.Strings(want)
				if fmt.Sprint(got) != fmt.Sprint(want) {
					run.Violation(c, "replication/sets-differ-from-healthy-owners", fmt.Sprintf("replication sets %v, healthy registered owners per partition %v", got, want), detail)
				}
			}
			// the same clause on derived rings (shuffle shards with and without look-back): the sets of a derived ring
			// are exactly the healthy registered owners of the partitions it holds, healthy by the configured
			// heartbeat timeout, whatever the look-back period
			for k := 0; k < 3; k++ {
				size := 1 + rng.IntN(np+1)
				id := fmt.Sprintf("tenant-%d", rng.IntN(4))
				lookback := []time.Duration{0, 10 * time.Second, time.Hour, 61 * time.Second}[rng.IntN(4)]
				var sub *ring.PartitionInstanceRing
				var serr error
				if lookback == 0 {
					sub, serr = pir.ShuffleShard(id, size)
				} else {
					sub, serr = pir.ShuffleShardWithLookback(id, size, lookback, time.Unix(now, 0))
				}
				if serr != nil {
					run.Count("derived_ring_errors", 1) // e.g. no active partition: nothing to compare
					continue
				}
				pids := sub.PartitionRing().PartitionIDs()
				if len(pids) == 0 {
					run.Count("derived_rings_without_partitions", 1) // an empty ring is an error of its own; nothing to compare
					continue
				}
				dsets, derr := sub.GetReplicationSetsForOperation(o.op)
				dEmpty := false
				var dgot, dwant []string
				for _, p := range pids {
					h := healthyOwners(p)
					if len(h) == 0 {
						dEmpty = true
					}
					dwant = append(dwant, fmt.Sprint(h))
				}
				ddetail := map[string]any{"instances": insts, "owners": owners, "op": o.sp.Name, "derived_by": map[string]any{"identifier": id, "size": size, "lookback": lookback.String()}, "partitions_in_derived_ring": pids}
				run.Count("derived_rings_checked", 1)
				run.EvalH(vt.Hash64(fmt.Sprint(insts, owners, o.sp.Name, id, size, lookback)), true)
				if dEmpty != (derr != nil) {
					run.Violation(c, "replication/derived/error-presence", fmt.Sprintf("derived ring: GetReplicationSetsForOperation error=%v, a partition without healthy owner exists=%v", derr, dEmpty), ddetail)
					continue
				}
				if derr == nil {
					for _, s := range dsets {
						dgot = append(dgot, fmt.Sprint(rk.IDs(s)))
					}
					sort.Strings(dgot)
					sort.Strings(dwant)
					if fmt.Sprint(dgot) != fmt.Sprint(dwant) {
						run.Violation(c, "replication/derived/sets-differ-from-healthy-owners", fmt.Sprintf("derived ring: replication sets %v, healthy registered owners per partition %v", dgot, dwant), ddetail)
					}
				}
			}
		} else {
			mr := ring.NewMultiPartitionInstanceRing(prReader{pr}, ir, time.Duration(timeout)*time.Second)
			for p := 0; p < np; p++ {
				h := healthyOwners(int32(p))
				rs, err := mr.GetReplicationSetForPartitionAndOperation(int32(p), o.op)
				run.EvalH(vt.Hash64(fmt.Sprint(insts, owners, o.sp.Name, p)), len(owners[int32(p)]) > 1)
				if (len(h) == 0) != (err != nil) {
					run.Violation(c, "replication/multi-error-presence", fmt.Sprintf("partition %d: error=%v, healthy owners %v", p, err, h), detail)
					continue
				}
				if err != nil {
					continue
				}
				hs := map[string]bool{}
				for _, x := range h {
					hs[x] = true
				}
				zones := map[string]int{}
				hz := map[string]bool{}
				for _, x := range h {
					hz[insts[x].Zone] = true
				}
				for _, i := range rs.Instances {
					if !hs[i.Id] {
						run.Violation(c, "replication/multi-member-not-a-healthy-owner", fmt.Sprintf("partition %d: member %s is not a healthy registered owner (%v)", p, i.Id, h), detail)
					}
					zones[i.Zone]++
				}
				for z, n := range zones {
					if n > 1 {
						run.Violation(c, "replication/multi-two-members-in-zone", fmt.Sprintf("partition %d: %d members in zone %s", p, n, z), detail)
					}
				}
				if len(rs.Instances) == 0 || len(zones) != len(hz) {
					run.Violation(c, "replication/multi-zone-coverage", fmt.Sprintf("partition %d: members cover %d zones, healthy owners live in %d", p, len(zones), len(hz)), detail)
				}
			}
		}
		_ = errors.Is
	})
}

func TestC15(t *testing.T) {
	run := vt.NewRun("C15", "exploration")
	run.SetRule("case = (partition ring of 1-20 partitions in any state mix with boundary/generated tokens, key): ActivePartitionForKey and GetKeysByPartition vs the clockwise walk over active partitions; or a history: 1-4 PartitionInstanceLifecyclers (wait count/duration and delete delay at and around the 5 s polling grid, single and multi-partition ownership) plus a PartitionRingEditor issuing state changes (legal and illegal), locks and owner removals on a recording store under the synctest virtual clock, judged by a log checker over every written version with writer identity and virtual commit time (legal edges, no change while locked, automatic promotion only with enough long-registered owners, deletion only of long-inactive ownerless foreign partitions); or a replication-set case against healthy registered owners on a real ring.Ring. non-trivial = mixed states / at least one state edge or deletion / several owners; distinct by content.")
	run.ForEach("routing", vt.N(1500, 80000), func(c vt.CaseID, rng *rand.Rand, s *vt.Slot) { routingCase(run, c, rng) })
	run.ForEachT(t, "history", vt.N(1500, 30000), func(t *testing.T, c vt.CaseID, rng *rand.Rand, s *vt.Slot) {
		s.Enter(c, "crash/history")
		historyCase(t, run, c, rng)
		s.Leave()
	})
	run.ForEachT(t, "replication", vt.N(3000, 50000), func(t *testing.T, c vt.CaseID, rng *rand.Rand, s *vt.Slot) {
		s.Enter(c, "crash/replication")
		replicationCase(t, run, c, rng)
		s.Leave()
	})
	if vt.GenEnabled("history") {
		if _, ok := vt.ReplayCase(); !ok && (run.Counter("auto_promotions") == 0 || run.Counter("deletions") == 0) {
			run.Inconclusive("no automatic promotion or no deletion observed")
		}
	}
	run.Finish(t)
}
