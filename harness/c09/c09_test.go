package c09

import (
	"context"
	"fmt"
	"math/rand/v2"
	"os"
	"path/filepath"
	"sort"
	"strings"
	"sync"
	"testing"
	"testing/synctest"
	"time"

	"github.com/grafana/dskit/kv"
	"github.com/grafana/dskit/ring"
	"github.com/grafana/dskit/services"

	"verifharness/lcsim"
	"verifharness/recstore"
	"verifharness/simnet"
	"verifharness/vt"
)

var t0 = time.Date(2000, 1, 1, 0, 0, 0, 0, time.UTC)

type scenario struct {
	Name      string `json:"scenario"`
	Kind      string `json:"lifecycler"` // full | basic
	StoreKind string `json:"store"`      // recording | gossip
	K         int    `json:"crash_at_write"`
	Before    bool   `json:"crash_before_commit"`
	K2        int    `json:"second_crash_at_write_of_restarted,omitempty"` // 0: the restarted incarnation does not crash
	Before2   bool   `json:"second_crash_before_commit,omitempty"`
	Bystander int    `json:"bystanders"`
}

var scenarioNames = []string{"fresh-join", "join-with-observe", "restart-from-tokens-file", "leave-unregister", "leave-keep", "token-claim"}

// world is one cluster under test.
type world struct {
	sc      scenario
	rec     *recstore.Store
	net     *simnet.Net
	dir     string
	victim  lcsim.Cfg
	journal []string
}

func (w *world) client(writer string) kv.Client {
	if w.rec != nil {
		return w.rec.Client(writer)
	}
	return w.net.Client(0, ring.GetCodec())
}

func (w *world) desc() *ring.Desc {
	v, _ := w.client("harness-read").Get(context.Background(), lcsim.Key)
	return ring.GetOrCreateRingDesc(v)
}

func (w *world) log(f string, a ...any) {
	w.journal = append(w.journal, fmt.Sprintf("t=%v ", time.Since(t0))+fmt.Sprintf(f, a...))
}

func victimCfg(sc scenario, dir string) lcsim.Cfg {
	c := lcsim.Cfg{ID: "victim-1", Kind: sc.Kind, NumTokens: 4, Heartbeat: 5 * time.Second, Zone: "z0", Seed: 42, Unregister: sc.Name == "leave-unregister"}
	switch sc.Name {
	case "join-with-observe":
		c.Observe = 3 * time.Second
	case "restart-from-tokens-file":
		c.TokensFile = filepath.Join(dir, "victim.tokens")
	}
	if sc.Kind == "full" {
		c.JoinAfter = 1500 * time.Millisecond
		if sc.Name == "token-claim" {
			c.JoinAfter = 40 * time.Second
		}
	} else {
		// the basic lifecycler publishes the state its delegate is configured with; nothing in the stock
		// delegates promotes JOINING to ACTIVE, so the recovery clause is exercised with ACTIVE
		c.RegisterState = ring.ACTIVE
		c.LeaveOnStop = true
	}
	return c
}

type outcome struct {
	commits int
	crashed bool
	// ring entry and file at the moment of the crash (or end of the scenario)
	entry      ring.InstanceDesc
	entryThere bool
	fileTokens ring.Tokens
	heldLists  map[string]bool
}

func tokensStr(t []uint32) string { return fmt.Sprint([]uint32(t)) }

// runScenario runs the scenario with the crash point, restarts the victim and judges the recovery.
func runScenario(t *testing.T, run *vt.Run, c vt.CaseID, sc scenario, dry bool) (commits int) {
	dir, err := os.MkdirTemp(vt.WorkDir(), "c09-")
	if err != nil {
		run.Inconclusive(err.Error())
		return
	}
	defer os.RemoveAll(dir)
	synctest.Test(t, func(t *testing.T) {
		w := &world{sc: sc, dir: dir}
		if sc.StoreKind == "gossip" {
			net, err := simnet.New(1, simnet.DefaultConfig(time.Hour))
			if err != nil {
				run.Inconclusive(err.Error())
				return
			}
			w.net = net
			defer net.Stop()
		} else {
			w.rec = recstore.New(ring.GetCodec())
			w.rec.RecordGets = false
		}
		w.victim = victimCfg(sc, dir)
		viol := func(sig, what string, extra map[string]any) {
			d := map[string]any{"scenario": sc, "journal": w.journal, "ring": lcsim.Canon(w.desc())}
			for k, v := range extra {
				d[k] = v
			}
			run.Violation(c, sc.Kind+"/"+sig, what, d)
		}
		var toStop []*lcsim.Inst
		var crashers []*lcsim.CrashKV
		defer func() {
			for _, ck := range crashers {
				ck.Release()
			}
			for _, in := range toStop {
				in.Stop()
			}
			synctest.Wait()
			time.Sleep(2 * time.Minute)
			synctest.Wait()
			if w.rec != nil {
				w.rec.Release()
			}
			synctest.Wait()
		}()
		// bystanders keep the ring populated
		for b := 0; b < sc.Bystander; b++ {
			cfg := lcsim.Cfg{ID: fmt.Sprintf("other-%d", b+2), Kind: "full", NumTokens: 4, Heartbeat: 5 * time.Second, Zone: "z1", Seed: int64(100 + b), Unregister: false}
			if sc.Name == "token-claim" && b == 0 {
				cfg.FinalSleep = 80 * time.Second // stays LEAVING with its tokens, waiting for the hand-over
			}
			in, err := lcsim.NewWithClient(cfg, 1, w.client(cfg.ID+"#1"))
			if err != nil {
				run.Inconclusive(err.Error())
				return
			}
			_ = in.Start()
			toStop = append(toStop, in)
		}
		time.Sleep(12 * time.Second)
		synctest.Wait()
		// prelude
		if sc.Name == "restart-from-tokens-file" {
			// a previous life stored the tokens file and left the ring
			pc := w.victim
			pc.Unregister = true
			prev, err := lcsim.NewWithClient(pc, 0, w.client("victim-1#0"))
			if err != nil {
				run.Inconclusive(err.Error())
				return
			}
			_ = prev.Start()
			time.Sleep(20 * time.Second)
			prev.Stop()
			time.Sleep(10 * time.Second)
			synctest.Wait()
			if tk, err := ring.LoadTokensFromFile(pc.TokensFile); err != nil || len(tk) != pc.NumTokens {
				run.Inconclusive(fmt.Sprintf("prelude: tokens file not written (%v, %d tokens)", err, len(tk)))
				return
			}
			w.log("prelude: previous life left tokens file, entry present=%v", func() bool { _, ok := w.desc().Ingesters["victim-1"]; return ok }())
		}
		// the victim under a crash plan
		k := sc.K
		if dry {
			k = 0
		}
		ck := lcsim.NewCrashKV(w.client("victim-1#1"), k, sc.Before)
		crashers = append(crashers, ck)
		v1, err := lcsim.NewWithClient(w.victim, 1, ck)
		if err != nil {
			run.Inconclusive(err.Error())
			return
		}
		held := map[string]bool{}
		if w.victim.TokensFile != "" {
			if tk, err := ring.LoadTokensFromFile(w.victim.TokensFile); err == nil {
				held[tokensStr(tk)] = true
			}
		}
		noteHeld := func() {
			if e, ok := w.desc().Ingesters["victim-1"]; ok && len(e.Tokens) > 0 {
				held[tokensStr(e.Tokens)] = true
			}
		}
		_ = v1.Start()
		toStop = append(toStop, v1) // after the crash wrapper is released its calls are rejected; it is then stopped like the others
		w.log("victim started (crash at write %d before=%v)", k, sc.Before)
		step := func(d time.Duration) {
			for x := time.Duration(0); x < d; x += time.Second {
				time.Sleep(time.Second)
				synctest.Wait()
				noteHeld()
				checkTokensFile(w, held, viol)
			}
		}
		switch sc.Name {
		case "fresh-join", "join-with-observe", "restart-from-tokens-file":
			step(25 * time.Second)
		case "leave-unregister", "leave-keep":
			step(15 * time.Second)
			if !ck.IsDead() {
				v1.Stop()
				w.log("victim asked to stop")
			}
			step(12 * time.Second)
		case "token-claim":
			if sc.Kind != "full" || sc.Bystander == 0 {
				return
			}
			step(3 * time.Second)
			donor := toStop[0]
			donor.Stop() // goes LEAVING, keeps its entry and tokens
			step(2 * time.Second)
			if !ck.IsDead() {
				// the calls are made from their own goroutine: if the victim crashes inside one of them
				// (it is parked at the write boundary) the call never returns, like in a dead process
				go func() {
					ctx := context.Background()
					e1 := v1.Full.ChangeState(ctx, ring.JOINING)
					e2 := v1.Full.ClaimTokensFor(ctx, donor.Cfg.ID)
					e3 := v1.Full.ChangeState(ctx, ring.ACTIVE)
					_, _, _ = e1, e2, e3
				}()
				synctest.Wait()
				w.log("hand-over from %s requested", donor.Cfg.ID)
			}
			step(12 * time.Second)
		}
		synctest.Wait()
		commits = ck.Commits()
		crashed := ck.IsDead()
		if dry {
			return
		}
		if !crashed {
			// the crash point is beyond what this scenario writes (timing shifted): nothing to judge
			run.Count("crash_point_not_reached", 1)
			return
		}
		run.Count("crash_points_reached", 1)
		// ---- state recorded at the crash; restart with the same identity. With a second crash plan the
		// restarted incarnation is parked at its K2-th write as well and a third incarnation is judged
		// against what was recorded at the second crash.
		var (
			entry      ring.InstanceDesc
			there      bool
			fileTokens ring.Tokens
			restartAt  time.Time
			states     []ring.InstanceState
			v2         *lcsim.Inst
		)
		rc := w.victim
		settle := rc.JoinAfter + rc.Observe + 3*rc.Heartbeat + 12*time.Second
		for inc := 2; ; inc++ {
			d := w.desc()
			entry, there = d.Ingesters["victim-1"]
			fileTokens = nil
			if w.victim.TokensFile != "" {
				fileTokens, _ = ring.LoadTokensFromFile(w.victim.TokensFile)
			}
			w.log("incarnation %d crashed (after %d commits of the first); entry present=%v state=%v tokens=%v reg=%d; file tokens=%v", inc-1, commits, there, entry.State, entry.Tokens, entry.RegisteredTimestamp, fileTokens)
			time.Sleep(2 * time.Second)
			restartAt = time.Now()
			var cl kv.Client = w.client(fmt.Sprintf("victim-1#%d", inc))
			var ck2 *lcsim.CrashKV
			if inc == 2 && sc.K2 > 0 {
				ck2 = lcsim.NewCrashKV(cl, sc.K2, sc.Before2)
				crashers = append(crashers, ck2)
				cl = ck2
			}
			v2, err = lcsim.NewWithClient(rc, inc, cl)
			if err != nil {
				run.Inconclusive(err.Error())
				return
			}
			toStop = append(toStop, v2)
			_ = v2.Start()
			// poll the published state four times per virtual second during the settle time
			states = nil
			synctest.Wait()
			for x := time.Duration(0); x < settle; x += 250 * time.Millisecond {
				if e, ok := w.desc().Ingesters["victim-1"]; ok {
					if len(states) == 0 || states[len(states)-1] != e.State {
						states = append(states, e.State)
					}
				}
				noteHeld()
				checkTokensFile(w, held, viol)
				if ck2 != nil && ck2.IsDead() {
					break
				}
				time.Sleep(250 * time.Millisecond)
				synctest.Wait()
			}
			if ck2 != nil && ck2.IsDead() {
				run.Count("second_crash_points_reached", 1)
				continue
			}
			if ck2 != nil {
				run.Count("second_crash_point_not_reached", 1)
			}
			break
		}
		w.log("after restart the entry went through %v", states)
		fin := w.desc()
		fe, ok := fin.Ingesters["victim-1"]
		svcState := v2.Svc().State()
		det := map[string]any{"states_after_restart": fmt.Sprint(states), "service_state": svcState.String(), "final_entry": fmt.Sprintf("%+v", fe), "at_crash": fmt.Sprintf("present=%v %+v", there, entry)}
		if svcState != services.Running {
			viol("restart-failed", fmt.Sprintf("the restarted lifecycler is %v (%v)", svcState, v2.Svc().FailureCase()), det)
			return
		}
		if !ok || fe.State != ring.ACTIVE || v2.State() != ring.ACTIVE {
			sig := "not-active-after-restart"
			if there {
				sig += "/from-" + entry.State.String()
			}
			viol(sig, fmt.Sprintf("after restart and %v the instance is not ACTIVE (ring: present=%v %v, lifecycler: %v)", settle, ok, fe.State, v2.State()), det)
			return
		}
		if len(fe.Tokens) != rc.NumTokens {
			viol("wrong-token-count-after-restart", fmt.Sprintf("ACTIVE with %d tokens, configured %d", len(fe.Tokens), rc.NumTokens), det)
		}
		// tokens and registration time resume from what was recorded
		switch {
		case there && len(entry.Tokens) == rc.NumTokens:
			if tokensStr(fe.Tokens) != tokensStr(entry.Tokens) {
				viol("tokens-not-kept", fmt.Sprintf("tokens %v, the ring recorded %v at the crash", fe.Tokens, entry.Tokens), det)
			}
		case there && len(entry.Tokens) > 0:
			for _, tk := range entry.Tokens {
				if !containsTok(fe.Tokens, tk) {
					viol("tokens-not-kept", fmt.Sprintf("token %d recorded in the ring at the crash was dropped", tk), det)
					break
				}
			}
		case len(fileTokens) == rc.NumTokens && (!there || len(entry.Tokens) == 0):
			if tokensStr(fe.Tokens) != tokensStr(fileTokens) {
				viol("tokens-file-ignored", fmt.Sprintf("tokens %v, the tokens file recorded %v", fe.Tokens, fileTokens), det)
			}
		}
		if there && entry.RegisteredTimestamp != 0 && fe.RegisteredTimestamp != entry.RegisteredTimestamp {
			viol("registration-time-not-kept", fmt.Sprintf("registration time %d, the ring recorded %d", fe.RegisteredTimestamp, entry.RegisteredTimestamp), det)
		}
		if !there && fe.RegisteredTimestamp < restartAt.Unix() {
			viol("registration-time-not-fresh", fmt.Sprintf("entry was absent at restart but registration time %d predates the restart %d", fe.RegisteredTimestamp, restartAt.Unix()), det)
		}
		// restart edges
		if sc.Kind == "full" && there && entry.State == ring.JOINING {
			if len(states) == 0 || !containsState(states, ring.PENDING) || indexState(states, ring.PENDING) > indexState(states, ring.ACTIVE) {
				viol("joining-restart-skipped-pending", fmt.Sprintf("died while JOINING but the published states after restart are %v", states), det)
			}
		}
		// no token shared with another instance
		owner := map[uint32]string{}
		for id, e := range fin.Ingesters {
			for _, tk := range e.Tokens {
				if o, dup := owner[tk]; dup {
					viol("token-collision-after-restart", fmt.Sprintf("token %d held by %s and %s", tk, o, id), det)
				}
				owner[tk] = id
			}
		}
		run.EvalH(vt.Hash64(fmt.Sprintf("%+v", sc)), true)
		run.Distinct("crash-state|" + fmt.Sprintf("%v|%v|%d", there, entry.State, len(entry.Tokens)))
		if run.WantSample() {
			run.Sample(map[string]any{"scenario": sc, "journal": w.journal})
		}
	})
	return
}

func containsTok(l []uint32, t uint32) bool {
	for _, x := range l {
		if x == t {
			return true
		}
	}
	return false
}
func containsState(l []ring.InstanceState, s ring.InstanceState) bool {
	return indexState(l, s) < len(l)
}
func indexState(l []ring.InstanceState, s ring.InstanceState) int {
	for i, x := range l {
		if x == s {
			return i
		}
	}
	return len(l)
}

// the tokens file, whenever it exists, parses and holds a complete list the instance has held
func checkTokensFile(w *world, held map[string]bool, viol func(string, string, map[string]any)) {
	if w.victim.TokensFile == "" {
		return
	}
	b, err := os.ReadFile(w.victim.TokensFile)
	if err != nil {
		return
	}
	var tk ring.Tokens
	if err := tk.Unmarshal(b); err != nil {
		viol("tokens-file-corrupt", "the tokens file does not parse: "+err.Error(), map[string]any{"content": string(b)})
		return
	}
	sort.Sort(tk)
	if len(tk) > 0 && !held[tokensStr(tk)] && len(tk) != w.victim.NumTokens {
		viol("tokens-file-partial", fmt.Sprintf("the tokens file holds %v which is not a complete list the instance has held", tk), nil)
	}
}

// ---- store fault windows (recording store) ---------------------------------------------------

type faultCase struct {
	Kind      string        `json:"lifecycler"`
	Start     time.Duration `json:"window_start"`
	Len       time.Duration `json:"window_length"`
	FailGet   bool          `json:"gets_fail"`
	FailCAS   bool          `json:"cas_fail"`
	WipeAt    time.Duration `json:"wipe_at"` // <0: no wipe
	Leaving   bool          `json:"wipe_during_leaving"`
	Restarted bool          `json:"victim_is_a_restarted_incarnation"`
}

func runFaults(t *testing.T, run *vt.Run, c vt.CaseID, fc faultCase) {
	synctest.Test(t, func(t *testing.T) {
		st := recstore.New(ring.GetCodec())
		st.RecordGets = false
		cfg := lcsim.Cfg{ID: "victim-1", Kind: fc.Kind, NumTokens: 4, Heartbeat: 5 * time.Second, Zone: "z0", Seed: 7, Unregister: true, JoinAfter: time.Second, RegisterState: ring.ACTIVE}
		if fc.Leaving {
			cfg.FinalSleep = 30 * time.Second
			cfg.Unregister = false
		}
		other, _ := lcsim.New(st, lcsim.Cfg{ID: "other-2", Kind: "full", NumTokens: 4, Heartbeat: 5 * time.Second, Zone: "z1", Seed: 9}, 1)
		_ = other.Start()
		cfg1 := cfg
		if fc.Restarted && fc.WipeAt%(2*time.Second) == time.Second {
			// the previous life ran with fewer tokens (configuration raised in between): the restarted incarnation
			// tops the list found in the ring up, and must remember the full list
			cfg1.NumTokens = 2
		}
		v, err := lcsim.New(st, cfg1, 1)
		if err != nil {
			run.Inconclusive(err.Error())
			return
		}
		var journal []string
		viol := func(sig, what string, extra map[string]any) {
			d := map[string]any{"case": fc, "journal": journal}
			for k, x := range extra {
				d[k] = x
			}
			run.Violation(c, fc.Kind+"/faults/"+sig, what, d)
		}
		defer func() {
			v.Stop()
			other.Stop()
			synctest.Wait()
			time.Sleep(2 * time.Minute)
			synctest.Wait()
			st.Release()
		}()
		_ = v.Start()
		time.Sleep(20 * time.Second)
		synctest.Wait()
		if fc.Restarted {
			// the incarnation under test found its entry (and tokens) in the ring when it started
			v.Cfg.Unregister = false
			if v.Full != nil {
				v.Full.SetUnregisterOnShutdown(false)
			} else {
				v.Basic.SetKeepInstanceInTheRingOnShutdown(true)
			}
			v.Stop()
			time.Sleep(10 * time.Second)
			synctest.Wait()
			v2, err := lcsim.New(st, cfg, 2)
			if err != nil {
				run.Inconclusive(err.Error())
				return
			}
			old := v
			defer old.Stop()
			v = v2
			_ = v.Start()
			time.Sleep(20 * time.Second)
			synctest.Wait()
			journal = append(journal, "victim restarted (entry and tokens found in the ring)")
		}
		read := func() (ring.InstanceDesc, bool) {
			x, _ := st.Client("harness-read").Get(context.Background(), lcsim.Key)
			e, ok := ring.GetOrCreateRingDesc(x).Ingesters["victim-1"]
			return e, ok
		}
		before, ok := read()
		if !ok || before.State != ring.ACTIVE || len(before.Tokens) != 4 {
			run.Inconclusive(fmt.Sprintf("victim not active before the fault window: %+v", before))
			return
		}
		base := time.Now()
		winStart, winEnd := base.Add(fc.Start), base.Add(fc.Start+fc.Len)
		inWin := func(int) bool { n := time.Now(); return !n.Before(winStart) && n.Before(winEnd) }
		f := recstore.Faults{}
		if fc.FailGet {
			f.FailGet = inWin
		}
		if fc.FailCAS {
			f.FailCAS = inWin
		}
		v.Handle.SetFaults(f)
		wantState := ring.ACTIVE
		if fc.Leaving {
			v.Stop()
			wantState = ring.LEAVING
			journal = append(journal, "victim asked to stop (final sleep 30s)")
		}
		wiped := false
		end := fc.Start + fc.Len
		if fc.WipeAt >= 0 && fc.WipeAt > end {
			end = fc.WipeAt
		}
		for x := time.Duration(0); x <= end+2*cfg.Heartbeat+time.Second; x += time.Second {
			if fc.WipeAt >= 0 && !wiped && x >= fc.WipeAt {
				st.Wipe(lcsim.Key)
				wiped = true
				journal = append(journal, fmt.Sprintf("t=+%v ring key wiped", x))
			}
			time.Sleep(time.Second)
			synctest.Wait()
		}
		after, ok := read()
		det := map[string]any{"before": fmt.Sprintf("%+v", before), "after": fmt.Sprintf("present=%v %+v", ok, after)}
		run.EvalH(vt.Hash64(fmt.Sprintf("%+v", fc)), wiped || fc.Len > 0)
		if !ok {
			viol("not-re-registered", "two heartbeats after the fault window the entry is missing", det)
			return
		}
		if after.State != wantState {
			viol("state-not-remembered", fmt.Sprintf("re-registered as %v, remembered state is %v", after.State, wantState), det)
		}
		if tokensStr(after.Tokens) != tokensStr(before.Tokens) {
			viol("tokens-not-remembered", fmt.Sprintf("tokens %v, remembered %v", after.Tokens, before.Tokens), det)
		}
		if wiped && after.RegisteredTimestamp < base.Add(fc.WipeAt).Unix() {
			viol("registration-time-not-fresh", fmt.Sprintf("re-registered after a wipe with registration time %d (wipe at %d)", after.RegisteredTimestamp, base.Add(fc.WipeAt).Unix()), det)
		}
		if !wiped && after.RegisteredTimestamp != before.RegisteredTimestamp {
			viol("registration-time-changed", "registration time changed although the entry never vanished", det)
		}
		if after.Timestamp < time.Now().Add(-2*cfg.Heartbeat-time.Second).Unix() {
			viol("heartbeat-not-resumed", fmt.Sprintf("heartbeat stamp %d is older than two periods at %d", after.Timestamp, time.Now().Unix()), det)
		}
		// the bystander is untouched by the victim's recovery
		x, _ := st.Client("harness-read").Get(context.Background(), lcsim.Key)
		if oe, ok := ring.GetOrCreateRingDesc(x).Ingesters["other-2"]; wiped && ok && len(oe.Tokens) != 4 {
			viol("bystander-damaged", fmt.Sprintf("bystander entry after the wipe: %+v", oe), nil)
		}
	})
}

// ---- ring wiped while a basic lifecycler remembers a state other than ACTIVE -------------------

type stateWipe struct {
	State  string        `json:"remembered_state"` // PENDING | JOINING | LEAVING | JOINING-by-request
	Phase  string        `json:"phase"`            // observing (service Starting) | running | stopping
	WipeAt time.Duration `json:"wipe_after_phase_start"`
	Twice  bool          `json:"wiped_again_one_period_later"`
}

func runStateWipe(t *testing.T, run *vt.Run, c vt.CaseID, sw stateWipe) {
	synctest.Test(t, func(t *testing.T) {
		st := recstore.New(ring.GetCodec())
		st.RecordGets = false
		cfg := lcsim.Cfg{ID: "victim-1", Kind: "basic", NumTokens: 4, Heartbeat: 5 * time.Second, Zone: "z0", Seed: 7, Unregister: false, RegisterState: ring.ACTIVE}
		want := ring.ACTIVE
		switch sw.State {
		case "PENDING":
			cfg.RegisterState, want = ring.PENDING, ring.PENDING
		case "JOINING":
			cfg.RegisterState, want = ring.JOINING, ring.JOINING
		case "JOINING-by-request":
			cfg.RegisterState, want = ring.PENDING, ring.JOINING
		case "LEAVING":
			cfg.LeaveOnStop, cfg.FinalSleep, want = true, 40*time.Second, ring.LEAVING
		}
		if sw.Phase == "observing" {
			cfg.Observe = 30 * time.Second
		}
		other, _ := lcsim.New(st, lcsim.Cfg{ID: "other-2", Kind: "full", NumTokens: 4, Heartbeat: 5 * time.Second, Zone: "z1", Seed: 9}, 1)
		_ = other.Start()
		v, err := lcsim.New(st, cfg, 1)
		if err != nil {
			run.Inconclusive(err.Error())
			return
		}
		var journal []string
		viol := func(sig, what string, extra map[string]any) {
			d := map[string]any{"case": sw, "journal": journal}
			for k, x := range extra {
				d[k] = x
			}
			run.Violation(c, "basic/state-wipe/"+sig, what, d)
		}
		defer func() {
			v.Stop()
			other.Stop()
			synctest.Wait()
			time.Sleep(3 * time.Minute)
			synctest.Wait()
			st.Release()
		}()
		read := func() (ring.InstanceDesc, bool) {
			x, _ := st.Client("harness-read").Get(context.Background(), lcsim.Key)
			e, ok := ring.GetOrCreateRingDesc(x).Ingesters["victim-1"]
			return e, ok
		}
		_ = v.Start()
		time.Sleep(2 * time.Second)
		synctest.Wait()
		switch sw.Phase {
		case "running", "stopping":
			time.Sleep(10 * time.Second)
			synctest.Wait()
			if v.Svc().State() != services.Running {
				run.Inconclusive("victim not running: " + v.Svc().State().String())
				return
			}
		}
		if sw.State == "JOINING-by-request" && sw.Phase != "observing" {
			if err := v.Basic.ChangeState(context.Background(), ring.JOINING); err != nil {
				run.Inconclusive("ChangeState: " + err.Error())
				return
			}
			journal = append(journal, "application asked for JOINING")
		} else if sw.State == "JOINING-by-request" {
			want = ring.PENDING
		}
		if sw.Phase == "stopping" {
			v.Stop()
			time.Sleep(time.Second)
			synctest.Wait()
			journal = append(journal, "victim asked to stop (its stopping work takes 40s)")
		}
		before, ok := read()
		if !ok || before.State != want || len(before.Tokens) != 4 || v.Basic.GetState() != want {
			run.Inconclusive(fmt.Sprintf("victim not in the remembered state %v before the wipe: present=%v %+v (lifecycler says %v)", want, ok, before, v.Basic.GetState()))
			return
		}
		time.Sleep(sw.WipeAt)
		synctest.Wait()
		wipedAt := time.Now()
		st.Wipe(lcsim.Key)
		journal = append(journal, fmt.Sprintf("ring key wiped %v into phase %s", sw.WipeAt, sw.Phase))
		if sw.Twice {
			time.Sleep(cfg.Heartbeat + time.Second)
			synctest.Wait()
			wipedAt = time.Now()
			st.Wipe(lcsim.Key)
			journal = append(journal, "ring key wiped again")
		}
		time.Sleep(2*cfg.Heartbeat + time.Second)
		synctest.Wait()
		after, ok := read()
		det := map[string]any{"before": fmt.Sprintf("%+v", before), "after": fmt.Sprintf("present=%v %+v", ok, after), "lifecycler_state": v.Basic.GetState().String()}
		run.EvalH(vt.Hash64(fmt.Sprintf("statewipe %+v", sw)), true)
		run.Count("state_wipes_judged", 1)
		if !ok {
			viol("not-re-registered", "two heartbeats after the wipe the entry is missing", det)
			return
		}
		if after.State != want {
			viol("state-not-remembered", fmt.Sprintf("re-registered as %v, remembered state is %v", after.State, want), det)
		}
		if v.Basic.GetState() != want {
			viol("lifecycler-forgot-state", fmt.Sprintf("the lifecycler now reports %v, its state before the wipe was %v", v.Basic.GetState(), want), det)
		}
		if tokensStr(after.Tokens) != tokensStr(before.Tokens) {
			viol("tokens-not-remembered", fmt.Sprintf("tokens %v, remembered %v", after.Tokens, before.Tokens), det)
		}
		if after.RegisteredTimestamp < wipedAt.Unix() {
			viol("registration-time-not-fresh", fmt.Sprintf("re-registered after a wipe with registration time %d (wipe at %d)", after.RegisteredTimestamp, wipedAt.Unix()), det)
		}
		x, _ := st.Client("harness-read").Get(context.Background(), lcsim.Key)
		if oe, ok := ring.GetOrCreateRingDesc(x).Ingesters["other-2"]; ok && len(oe.Tokens) != 4 {
			viol("bystander-damaged", fmt.Sprintf("bystander entry after the wipe: %+v", oe), nil)
		}
	})
}

// ---- store faults by call ordinal: the k-th .. (k+l-1)-th CAS call of the victim is rejected ---------

type callFault struct {
	Phase   string        `json:"phase"` // join | join-observe | basic-join | leaving
	K       int           `json:"first_rejected_cas_call"`
	L       int           `json:"rejected_cas_calls"`
	LostAck bool          `json:"applied_but_acknowledgement_lost"`
	Observe time.Duration `json:"observe_period"`
}

// runCallFaults rejects a run of consecutive CAS calls of a lifecycler while it joins (or leaves). A lifecycler
// whose service survives the window (the start-up writes are allowed to fail the service) must, three heartbeats
// after the window, have published what it remembers: ACTIVE with its full token list after a join, LEAVING with
// its tokens while it lingers in its final sleep.
func runCallFaults(t *testing.T, run *vt.Run, c vt.CaseID, cf callFault) (casCalls int) {
	synctest.Test(t, func(t *testing.T) {
		st := recstore.New(ring.GetCodec())
		st.RecordGets = false
		cfg := lcsim.Cfg{ID: "victim-1", Kind: "full", NumTokens: 4, Heartbeat: 5 * time.Second, Zone: "z0", Seed: 7, JoinAfter: time.Second, Observe: cf.Observe, RegisterState: ring.ACTIVE}
		if cf.Phase == "basic-join" {
			cfg.Kind = "basic"
		}
		if cf.Phase == "leaving" {
			cfg.FinalSleep = 40 * time.Second
		}
		other, _ := lcsim.New(st, lcsim.Cfg{ID: "other-2", Kind: "full", NumTokens: 4, Heartbeat: 5 * time.Second, Zone: "z1", Seed: 9}, 1)
		_ = other.Start()
		time.Sleep(8 * time.Second)
		synctest.Wait()
		v, err := lcsim.New(st, cfg, 1)
		if err != nil {
			run.Inconclusive(err.Error())
			return
		}
		var journal []string
		viol := func(sig, what string, extra map[string]any) {
			d := map[string]any{"case": cf, "journal": journal}
			for k, x := range extra {
				d[k] = x
			}
			run.Violation(c, cfg.Kind+"/call-faults/"+sig, what, d)
		}
		defer func() {
			v.Stop()
			other.Stop()
			synctest.Wait()
			time.Sleep(2 * time.Minute)
			synctest.Wait()
			st.Release()
		}()
		var mu sync.Mutex
		calls, armedAt, rejected := 0, 0, 0
		armed := cf.Phase != "leaving"
		pred := func(n int) bool {
			mu.Lock()
			defer mu.Unlock()
			calls = n
			if !armed || cf.K == 0 {
				return false
			}
			if armedAt == 0 {
				armedAt = n
			}
			if rel := n - armedAt + 1; rel >= cf.K && rel < cf.K+cf.L {
				rejected++
				if cf.LostAck {
					journal = append(journal, fmt.Sprintf("t=%v CAS call %d of the victim: applied if it writes, but reported as failed", time.Since(t0), n))
				} else {
					journal = append(journal, fmt.Sprintf("t=%v CAS call %d of the victim rejected", time.Since(t0), n))
				}
				return true
			}
			return false
		}
		if cf.LostAck {
			v.Handle.SetFaults(recstore.Faults{LoseAck: pred})
		} else {
			v.Handle.SetFaults(recstore.Faults{FailCAS: pred})
		}
		_ = v.Start()
		read := func() (ring.InstanceDesc, bool) {
			x, _ := st.Client("harness-read").Get(context.Background(), lcsim.Key)
			e, ok := ring.GetOrCreateRingDesc(x).Ingesters["victim-1"]
			return e, ok
		}
		wantState := ring.ACTIVE
		settle := cfg.JoinAfter + time.Duration(cf.L+3)*cf.Observe + time.Duration(cf.L+3)*cfg.Heartbeat + 5*time.Second
		if cf.Phase == "leaving" {
			time.Sleep(20 * time.Second)
			synctest.Wait()
			if e, ok := read(); !ok || e.State != ring.ACTIVE {
				run.Inconclusive(fmt.Sprintf("victim not active before leaving: %+v", e))
				return
			}
			mu.Lock()
			armed = true
			mu.Unlock()
			go v.Stop() // lingers LEAVING for the final sleep, heartbeating
			wantState = ring.LEAVING
			settle = time.Duration(cf.L+3) * cfg.Heartbeat
			journal = append(journal, "victim asked to stop (final sleep 40s)")
		}
		time.Sleep(settle)
		synctest.Wait()
		mu.Lock()
		casCalls = calls
		rej := rejected
		mu.Unlock()
		if cf.K == 0 {
			return // dry run: counts the CAS calls of the phase
		}
		run.EvalH(vt.Hash64(fmt.Sprintf("%+v", cf)), rej > 0)
		if rej == 0 {
			run.Count("call_fault_not_reached", 1)
			return
		}
		run.Count("call_faults_reached", 1)
		svc := v.Svc().State()
		if cf.Phase != "leaving" && svc != services.Running {
			// a rejected start-up write (registration, token pick) fails the service: outside the clause
			run.Count("call_fault_failed_startup", 1)
			run.Distinct("call-fault-startup-failure|" + fmt.Sprintf("%s|%d", cf.Phase, cf.K))
			return
		}
		e, ok := read()
		det := map[string]any{"entry": fmt.Sprintf("present=%v %+v", ok, e), "service": svc.String(), "lifecycler_state": v.State().String()}
		// the states this (never restarted) incarnation published, over every version written: they only move forward
		// along pending, joining, active, leaving - whatever the store told the lifecycler about its writes
		rank := map[ring.InstanceState]int{ring.PENDING: 1, ring.JOINING: 2, ring.ACTIVE: 3, ring.LEAVING: 4}
		var seq []string
		prev := ring.InstanceState(-1)
		for _, ver := range st.VersionsOf(lcsim.Key) {
			x, derr := ring.GetCodec().Decode(ver.Bytes)
			if derr != nil {
				continue
			}
			ve, present := ring.GetOrCreateRingDesc(x).Ingesters["victim-1"]
			if !present {
				continue
			}
			if ve.State != prev {
				seq = append(seq, ve.State.String())
				if prev >= 0 && rank[ve.State] < rank[prev] {
					viol("published-state-went-backwards", fmt.Sprintf("the ring entry of the victim went from %v to %v without a restart (version %d written by %s)", prev, ve.State, ver.N, ver.Writer), map[string]any{"published_states": seq})
				}
				prev = ve.State
			}
		}
		run.Count("published_state_sequences_checked", 1)
		if !ok {
			viol("not-re-registered", "three heartbeats after the rejected writes the entry is missing", det)
			return
		}
		if e.State != wantState {
			viol("state-not-remembered", fmt.Sprintf("three heartbeats after the rejected writes the ring shows %v, expected %v", e.State, wantState), det)
		}
		if len(e.Tokens) != cfg.NumTokens {
			viol("tokens-not-remembered", fmt.Sprintf("the ring shows %d tokens, configured %d", len(e.Tokens), cfg.NumTokens), det)
		}
		if cf.Phase != "leaving" && v.State() != ring.ACTIVE {
			viol("state-not-remembered", fmt.Sprintf("the lifecycler reports %v after joining", v.State()), det)
		}
		if e.Timestamp < time.Now().Add(-2*cfg.Heartbeat-time.Second).Unix() {
			viol("heartbeat-not-resumed", fmt.Sprintf("heartbeat stamp %d is older than two periods at %d", e.Timestamp, time.Now().Unix()), det)
		}
	})
	return
}

func TestC09(t *testing.T) {
	run := vt.NewRun("C09", "fault_enumeration")
	run.SetRule("case = (scenario in {fresh join, join with observe period, restart from tokens file, graceful leave with and without unregistering, token claim}, lifecycler kind, store kind in {recording store, gossip store on a detached node}, crash point = before or after the commit of the k-th store write of the victim, k = 1..W with W counted by a dry run; plus, per first crash point, a second crash of the restarted incarnation before/after its 1st..3rd write - one seeded choice in quick, all six in thorough - after which a third incarnation is judged against the record at the second crash); the victim is parked at the crash point, a new lifecycler with the same identity is started and after join-after + observe + 3 heartbeat periods (+12 s) must be ACTIVE with the configured token count, the tokens and registration time the ring (or, if the ring has none, the tokens file) recorded at the crash, having passed through PENDING if it died JOINING, without sharing a token with another instance; the tokens file is parsed after every virtual second. Plus fault windows on the recording store: windows of failing Get/CAS of every start x length on a grid, a wipe of the ring key inside or outside the window, a wipe during leaving; two heartbeats after the window the entry must be back with the remembered state and tokens, a fresh registration time iff it had vanished, and fresh heartbeats. The crash-point space per scenario is enumerated completely. non-trivial: every reached crash point / every fault case; distinct by case; distinct crash states counted.")
	// enumerate: dry runs first (sequential, cheap), then all crash points
	type plan struct {
		sc scenario
	}
	var plans []plan
	kinds := []string{"full", "basic"}
	stores := []string{"recording", "gossip"}
	bystanders := []int{1, 2}
	if !vt.Thorough() {
		bystanders = []int{1 + int(vt.Seed()%2)}
	}
	for _, name := range scenarioNames {
		for _, kind := range kinds {
			if name == "token-claim" && kind == "basic" {
				continue
			}
			for _, sk := range stores {
				for _, by := range bystanders {
					sc := scenario{Name: name, Kind: kind, StoreKind: sk, Bystander: by}
					w := runScenario(t, run, vt.CaseID{Gen: "dry", Seed: vt.Seed()}, sc, true)
					run.Count("dry_runs", 1)
					run.Count("writes_counted", int64(w))
					for k := 1; k <= w; k++ {
						for _, before := range []bool{true, false} {
							s2 := sc
							s2.K, s2.Before = k, before
							plans = append(plans, plan{s2})
							// a second crash of the restarted incarnation at its 1st..3rd write (thorough: all
							// of them; quick: one seeded choice per first crash point)
							pick := vt.Mix(uint64(len(plans)), uint64(vt.Seed()), 9) % 6
							for k2 := 1; k2 <= 3; k2++ {
								for bi, b2 := range []bool{true, false} {
									if !vt.Thorough() && pick != uint64((k2-1)*2+bi) {
										continue
									}
									s3 := s2
									s3.K2, s3.Before2 = k2, b2
									plans = append(plans, plan{s3})
								}
							}
						}
					}
				}
			}
		}
	}
	run.SetExtra("crash_points_enumerated", len(plans))
	run.SetExhaustive(true)
	run.ForEachT(t, "crash", len(plans), func(t *testing.T, c vt.CaseID, rng *rand.Rand, s *vt.Slot) {
		s.Enter(c, "crash/crash")
		runScenario(t, run, c, plans[c.Idx].sc, false)
		s.Leave()
	})
	// fault windows
	var fcs []faultCase
	for _, kind := range kinds {
		for _, start := range []time.Duration{0, 2 * time.Second, 5 * time.Second} {
			for _, ln := range []time.Duration{0, 3 * time.Second, 5 * time.Second, 12 * time.Second, 40 * time.Second} {
				for _, mode := range []int{0, 1, 2} { // gets, cas, both
					if ln == 0 && mode > 0 {
						continue
					}
					for _, wipe := range []time.Duration{-1, 1 * time.Second, start + ln/2, start + ln + time.Second} {
						if ln == 0 && wipe < 0 {
							continue
						}
						fcs = append(fcs, faultCase{Kind: kind, Start: start, Len: ln, FailGet: mode != 1 && ln > 0, FailCAS: mode != 0 && ln > 0, WipeAt: wipe})
					}
				}
			}
		}
		for _, wipe := range []time.Duration{2 * time.Second, 7 * time.Second, 3 * time.Second, 9 * time.Second} {
			fcs = append(fcs, faultCase{Kind: kind, WipeAt: wipe, Restarted: true})
			fcs = append(fcs, faultCase{Kind: kind, WipeAt: wipe, Restarted: true, Start: time.Second, Len: 5 * time.Second, FailCAS: true})
		}
		if kind == "full" { // the basic lifecycler has no lingering leaving phase
			fcs = append(fcs, faultCase{Kind: kind, WipeAt: 3 * time.Second, Leaving: true})
			fcs = append(fcs, faultCase{Kind: kind, WipeAt: 8 * time.Second, Leaving: true, Start: 2 * time.Second, Len: 4 * time.Second, FailCAS: true})
		}
	}
	run.SetExtra("fault_cases_enumerated", len(fcs))
	run.ForEachT(t, "faults", len(fcs), func(t *testing.T, c vt.CaseID, rng *rand.Rand, s *vt.Slot) {
		s.Enter(c, "crash/faults")
		runFaults(t, run, c, fcs[c.Idx])
		s.Leave()
	})
	// ring wiped while a basic lifecycler remembers PENDING / JOINING / LEAVING
	var sws []stateWipe
	for _, stt := range []string{"ACTIVE", "PENDING", "JOINING", "JOINING-by-request", "LEAVING"} {
		for _, ph := range []string{"observing", "running", "stopping"} {
			if (stt == "LEAVING") != (ph == "stopping") {
				continue
			}
			for _, at := range []time.Duration{0, 2 * time.Second, 6 * time.Second, 11 * time.Second} {
				for _, twice := range []bool{false, true} {
					sws = append(sws, stateWipe{State: stt, Phase: ph, WipeAt: at, Twice: twice})
				}
			}
		}
	}
	run.SetExtra("state_wipe_cases_enumerated", len(sws))
	run.ForEachT(t, "state-wipes", len(sws), func(t *testing.T, c vt.CaseID, rng *rand.Rand, s *vt.Slot) {
		s.Enter(c, "crash/state-wipes")
		runStateWipe(t, run, c, sws[c.Idx])
		s.Leave()
	})
	// rejected CAS calls by ordinal, while joining and while leaving
	var cfs []callFault
	for _, ph := range []callFault{{Phase: "join"}, {Phase: "join-observe", Observe: 3 * time.Second}, {Phase: "basic-join"}, {Phase: "leaving"}} {
		w := runCallFaults(t, run, vt.CaseID{Gen: "dry-calls", Seed: vt.Seed()}, ph)
		run.Count("cas_calls_counted", int64(w))
		if ph.Phase == "leaving" {
			w = 4
		}
		for k := 1; k <= w && k <= 8; k++ {
			for _, l := range []int{1, 2, 4} {
				x := ph
				x.K, x.L = k, l
				cfs = append(cfs, x)
			}
			for _, l := range []int{1, 2} {
				x := ph
				x.K, x.L, x.LostAck = k, l, true
				cfs = append(cfs, x)
			}
		}
	}
	run.SetExtra("call_fault_cases_enumerated", len(cfs))
	run.ForEachT(t, "call-faults", len(cfs), func(t *testing.T, c vt.CaseID, rng *rand.Rand, s *vt.Slot) {
		s.Enter(c, "crash/call-faults")
		runCallFaults(t, run, c, cfs[c.Idx])
		s.Leave()
	})
	_ = strings.Join
	run.Finish(t)
}

// ---- tokens file under injected syscall faults (strace as a fault injector) ---------------------

func helperTokens(seed uint32, n int) ring.Tokens {
	t := make(ring.Tokens, n)
	for i := range t {
		t[i] = seed + uint32(i)*7919
	}
	return t
}

// TestC09StraceHelper is the child: it rewrites the tokens file once.
func TestC09StraceHelper(t *testing.T) {
	path := os.Getenv("VERIF_C09_HELPER")
	if path == "" {
		t.Skip("helper only")
	}
	if err := helperTokens(5_000_000, 300).StoreToFile(path); err != nil {
		fmt.Println("helper: StoreToFile failed:", err)
		os.Exit(3)
	}
	os.Exit(0)
}

// leftoverTmp: an earlier write was interrupted after its temporary file had been filled (the code leaves that
// file behind on purpose); later writes of shorter and longer lists must still publish a file that parses to
// exactly what was written.
func leftoverTmp(run *vt.Run) {
	dir, err := os.MkdirTemp(vt.WorkDir(), "c09-tmp-")
	if err != nil {
		run.Inconclusive(err.Error())
		return
	}
	defer os.RemoveAll(dir)
	c := vt.CaseID{Gen: "leftover-tmp", Seed: vt.Seed()}
	for i, lens := range [][2]int{{300, 4}, {300, 0}, {4, 300}, {128, 128}, {512, 1}} {
		path := filepath.Join(dir, fmt.Sprintf("tokens-%d", i))
		left, _ := helperTokens(4_000_000_000-uint32(i), lens[0]).Marshal()
		if err := os.WriteFile(path+".tmp", left, 0o666); err != nil {
			run.Inconclusive(err.Error())
			return
		}
		want := helperTokens(7, lens[1])
		if err := want.StoreToFile(path); err != nil {
			run.Violation(c, "tokens-file/store-failed-over-leftover-tmp", "StoreToFile failed although only a leftover temporary file was in the way: "+err.Error(), map[string]any{"leftover_tokens": lens[0], "written_tokens": lens[1]})
			continue
		}
		run.Eval(fmt.Sprintf("leftover-tmp|%v", lens), true)
		b, _ := os.ReadFile(path)
		got, err := ring.LoadTokensFromFile(path)
		if err != nil {
			run.Violation(c, "tokens-file-corrupt", "after a write over a leftover temporary file the tokens file does not parse: "+err.Error(), map[string]any{"leftover_tokens": lens[0], "written_tokens": lens[1], "content_head": string(b[:min(len(b), 120)])})
			continue
		}
		if tokensStr(got) != tokensStr(want) {
			run.Violation(c, "tokens-file-partial", "after a write over a leftover temporary file the tokens file holds another list than the one written", map[string]any{"leftover_tokens": lens[0], "written_tokens": lens[1]})
		}
	}
}

func TestC09Strace(t *testing.T) {
	run := vt.NewRun("C09", "fault_enumeration")
	leftoverTmp(run)
	run.SetRule("tokens file: a child process rewrites an existing tokens file through Tokens.StoreToFile while strace injects an error (ENOSPC, EIO, EDQUOT) or SIGKILL at the k-th openat / write / close / rename system call that touches the file or its temporary; afterwards the file must parse and hold either the complete old or the complete new list.")
	self := os.Getenv("VERIF_BIN")
	if self == "" {
		self, _ = os.Executable()
	}
	stracePath, err := execLookPath("strace")
	if err != nil || !straceWorks(stracePath) {
		run.SetExtra("strace", "not usable in this sandbox (ptrace refused or binary missing): sub-check skipped")
		run.Eval("strace-skipped-1", true)
		run.Eval("strace-skipped-2", true)
		run.Finish(t)
		return
	}
	dir, err := os.MkdirTemp(vt.WorkDir(), "c09-strace-")
	if err != nil {
		t.Fatal(err)
	}
	defer os.RemoveAll(dir)
	path := filepath.Join(dir, "tokens")
	oldT := helperTokens(1_000, 250)
	newT := helperTokens(5_000_000, 300)
	type inj struct{ sys, what string }
	var injs []inj
	for _, sys := range []string{"openat", "write", "close", "rename,renameat,renameat2"} {
		for _, what := range []string{"error=ENOSPC", "error=EIO", "error=EDQUOT", "signal=SIGKILL"} {
			injs = append(injs, inj{sys, what})
		}
	}
	idx := 0
	for _, in := range injs {
		for when := 1; when <= 3; when++ {
			c := vt.CaseID{Gen: "strace", Idx: int64(idx), Seed: vt.Seed()}
			idx++
			if rc, ok := vt.ReplayCase(); ok && (rc.Gen != "strace" || rc.Idx != c.Idx) {
				continue
			}
			os.Remove(path + ".tmp")
			if err := oldT.StoreToFile(path); err != nil {
				t.Fatal(err)
			}
			args := []string{"-f", "-qq", "-o", "/dev/null", "-P", path, "-P", path + ".tmp", "-e", "trace=openat,write,close,rename,renameat,renameat2",
				"-e", fmt.Sprintf("inject=%s:%s:when=%d", in.sys, in.what, when), self, "-test.run", "^TestC09StraceHelper$"}
			out, rerr := runCmd(stracePath, args, []string{"VERIF_C09_HELPER=" + path})
			b, err := os.ReadFile(path)
			desc := fmt.Sprintf("inject %s:%s:when=%d", in.sys, in.what, when)
			run.Eval(desc, true)
			det := map[string]any{"injection": desc, "child_exit": fmt.Sprint(rerr), "child_output": tailStr(out, 400)}
			if err != nil {
				run.Violation(c, "tokens-file-lost", "after an interrupted write the tokens file is gone: "+err.Error(), det)
				continue
			}
			var got ring.Tokens
			if err := got.Unmarshal(b); err != nil {
				det["content_prefix"] = tailStr(string(b), 200)
				det["size"] = len(b)
				run.Violation(c, "tokens-file-corrupt", "after an interrupted write the tokens file does not parse: "+err.Error(), det)
				continue
			}
			if tokensStr(got) != tokensStr(oldT) && tokensStr(got) != tokensStr(newT) {
				det["tokens_in_file"] = len(got)
				run.Violation(c, "tokens-file-partial", fmt.Sprintf("after an interrupted write the tokens file holds %d tokens: neither the old nor the new list", len(got)), det)
			}
			if tokensStr(got) == tokensStr(newT) {
				run.Count("strace_new_file_seen", 1)
			} else {
				run.Count("strace_old_file_kept", 1)
			}
		}
	}
	run.SetExtra("strace", "used as syscall fault injector")
	run.Finish(t)
}
