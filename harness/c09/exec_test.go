package c09

import (
	"bytes"
	"os"
	"os/exec"
	"time"
)

func execLookPath(name string) (string, error) { return exec.LookPath(name) }

func straceWorks(p string) bool {
	cmd := exec.Command(p, "-o", "/dev/null", "-e", "trace=write", "true")
	return cmd.Run() == nil
}

func runCmd(bin string, args []string, env []string) (string, error) {
	cmd := exec.Command(bin, args...)
	cmd.Env = append(os.Environ(), env...)
	var buf bytes.Buffer
	cmd.Stdout, cmd.Stderr = &buf, &buf
	done := make(chan error, 1)
	if err := cmd.Start(); err != nil {
		return "", err
	}
	go func() { done <- cmd.Wait() }()
	select {
	case err := <-done:
		return buf.String(), err
	case <-time.After(60 * time.Second):
		_ = cmd.Process.Kill()
		return buf.String(), <-done
	}
}

func tailStr(s string, n int) string {
	if len(s) > n {
		return s[len(s)-n:]
	}
	return s
}
