#!/usr/bin/env python3
"""Helper (not a check): statement coverage of /repo's packages by the quick-tier workloads.

  ./coverage.py [ID ...]     -> /tmp/verif-cov/<ID>.<part>.cov, summary on stdout

Used to find code behind a property that no workload reaches (DESIGN 8.7).
"""
import os
import subprocess
import sys

sys.path.insert(0, os.path.dirname(os.path.abspath(__file__)))
from checks_table import PROPS  # noqa: E402

VERIF = os.path.dirname(os.path.abspath(__file__))
HARNESS = os.path.join(VERIF, "harness")
OUT = "/tmp/verif-cov"
PKGS = "github.com/grafana/dskit/ring,github.com/grafana/dskit/ring/...,github.com/grafana/dskit/kv/...,github.com/grafana/dskit/services,github.com/grafana/dskit/modules,github.com/grafana/dskit/cache,github.com/grafana/dskit/tenant,github.com/grafana/dskit/user,github.com/grafana/dskit/middleware,github.com/grafana/dskit/loser"


def env():
    e = dict(os.environ)
    e.update({"GOFLAGS": "-mod=mod", "GOPROXY": "off", "GOTOOLCHAIN": "auto", "GONOSUMDB": "*", "GONOSUMCHECK": "1"})
    e.pop("GOSUMDB", None)
    return e


def main():
    ids = sys.argv[1:] or sorted(PROPS)
    os.makedirs(OUT, exist_ok=True)
    for pid in ids:
        for part in PROPS[pid]["parts"]:
            if part.get("fuzz"):
                continue
            name = part["name"]
            binp = os.path.join(OUT, "%s.%s.test" % (pid, name))
            cmd = ["go", "test", "-c", "-vet=off", "-tags", "verif", "-cover", "-coverpkg", PKGS, "-o", binp]
            if part.get("race"):
                cmd.append("-race")
            cmd.append("./" + part["pkg"] + "/")
            p = subprocess.run(cmd, cwd=HARNESS, env=env(), stdout=subprocess.PIPE, stderr=subprocess.STDOUT, text=True)
            if p.returncode != 0:
                print("BUILD FAILED", pid, name, p.stdout[-2000:])
                continue
            wd = os.path.join(OUT, "%s.%s.wd" % (pid, name))
            subprocess.run(["rm", "-rf", wd])
            os.makedirs(wd + "/scratch")
            os.makedirs(wd + "/replays")
            cov = os.path.join(OUT, "%s.%s.cov" % (pid, name))
            args = [binp, "-test.timeout", "3000s", "-test.count", "1", "-test.parallel", "16", "-test.coverprofile", cov]
            if part.get("run"):
                args += ["-test.run", part["run"]]
            args += ["-seed", os.environ.get("VERIF_SEED", "1"), "-tier", "quick", "-part", wd + "/part.json", "-replays", wd + "/replays",
                     "-known", os.path.join(VERIF, "known_findings.json"), "-journal", wd + "/journal", "-workdir", wd + "/scratch"]
            args += part.get("args", [])
            e = env()
            e["GORACE"] = "halt_on_error=0 history_size=3 log_path=%s/r" % wd
            e["VERIF_BIN"] = binp
            e["VERIF_REPLAYS"] = wd + "/replays"
            with open(wd + "/log", "w") as lf:
                rc = subprocess.run(args, cwd=os.path.join(HARNESS, part["pkg"]), env=e, stdout=lf, stderr=subprocess.STDOUT).returncode
            print("ran", pid, name, "rc", rc, flush=True)
            os.remove(binp)


if __name__ == "__main__":
    main()
