#!/bin/bash
# usage: seedtest_iso.sh <patch.diff> <tier> <ID> [<ID> ...]
# Like seedtest.sh, but touches neither /repo nor /verif: copies both to a scratch directory, applies the
# change to the copy of /repo and runs the copied checks against it (safe while other checks are running).
set -u
PATCH="$(readlink -f "$1")"; TIER="$2"; shift 2
S=/tmp/vseed-$$
mkdir -p $S
rsync -a --exclude .git /repo/ $S/repo/
rsync -a --exclude .git --exclude .work --exclude replays /verif/ $S/verif/
trap 'rm -rf $S' EXIT
cd $S/repo && git apply "$PATCH" || { echo "patch does not apply"; exit 2; }
cd $S/verif
for id in "$@"; do
  echo "=== $id ($TIER) against $(basename $(dirname $PATCH)) [isolated copy]"
  VERIF_REPO=$S/repo ./check "$id" "$TIER" 2>&1 | grep -E "^(VIOLATION|KNOWN-FINDING|HELD|INCONCLUSIVE|  what)" | cut -c1-300 | head -12
done
