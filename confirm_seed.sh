#!/bin/bash
# usage: confirm_seed.sh <ID> <agent-worktree> <pkg> [<pkg>...]
# Independently confirms a seeded change in a fresh scratch worktree of /repo:
# patch applies, builds, existing tests of the touched packages pass, demo fails with / passes without.
set -u
ID="$1"; SRC="$2"; shift 2
export GOFLAGS=-mod=mod GOPROXY=off
W=/tmp/confirm-$ID
rm -rf $W; git -C /repo worktree prune
git -C /repo worktree add -q $W HEAD || exit 2
cd $W
OUT=/tmp/confirm-$ID.log
: > $OUT
git apply $SRC/seed.patch || { echo "APPLY FAILED" | tee -a $OUT; exit 2; }
echo "patched files: $(git diff --name-only | tr '\n' ' ')" >> $OUT
go build ./... >> $OUT 2>&1 && echo "BUILD ok" >> $OUT || echo "BUILD FAILED" >> $OUT
for p in "$@"; do
  if go test -count=1 -vet=off $p > $OUT.pkg 2>&1; then
    cat $OUT.pkg >> $OUT; echo "EXISTING-TESTS ok $p" >> $OUT
  else
    cat $OUT.pkg >> $OUT
    # a failure may be one of the suite's wall-clock tests under load (e.g. TestCheckReady_CheckRingHealth:
    # "991ms is not >= 1s"): re-run exactly the failed top-level tests alone, three times
    FAILED=$(grep -E '^--- FAIL: ' $OUT.pkg | awk '{print $3}' | sed 's,/.*,,' | sort -u | tr '\n' '|' | sed 's/|$//')
    if [ -n "$FAILED" ] && go test -count=3 -vet=off -run "^($FAILED)\$" $p >> $OUT 2>&1; then
      echo "EXISTING-TESTS ok $p (first run failed in $FAILED under load; passes 3/3 when re-run alone)" >> $OUT
    else
      echo "EXISTING-TESTS FAILED $p" >> $OUT
    fi
  fi
  rm -f $OUT.pkg
done
# demo
DEMO=$(cd $SRC && find . -name zz_seed_demo_test.go | head -1)
cp $SRC/$DEMO $W/$DEMO
DPKG=./$(dirname $DEMO)
go test -count=1 -vet=off -run '^TestSeedDemo$' $DPKG >> $OUT 2>&1 && echo "DEMO-WITH-CHANGE passes (BAD)" >> $OUT || echo "DEMO-WITH-CHANGE fails (expected)" >> $OUT
git apply -R $SRC/seed.patch
go test -count=1 -vet=off -run '^TestSeedDemo$' $DPKG >> $OUT 2>&1 && echo "DEMO-WITHOUT-CHANGE passes (expected)" >> $OUT || echo "DEMO-WITHOUT-CHANGE fails (BAD)" >> $OUT
cd /; git -C /repo worktree remove --force $W; git -C /repo worktree prune
grep -E "^(BUILD|EXISTING-TESTS|DEMO-|patched)" $OUT
