#!/bin/bash
# usage: seedtest.sh <patch.diff> <tier> <ID> [<ID> ...]
# Applies a seeded change to /repo, runs the given checks, and always restores /repo.
set -u
PATCH="$1"; TIER="$2"; shift 2
cd /repo || exit 2
if ! git diff --quiet; then echo "/repo has uncommitted changes, refusing"; exit 2; fi
if ! git apply --check "$PATCH"; then echo "patch does not apply"; exit 2; fi
git apply "$PATCH"
trap 'git -C /repo checkout -- . ; /verif/harness/gen_gomod.sh' EXIT
cd /verif
mkdir -p /tmp/seedtest-evidence
cp -r evidence /tmp/seedtest-evidence/saved.$$
for id in "$@"; do
  echo "=== $id ($TIER) against $(basename $(dirname $PATCH))"
  ./check "$id" "$TIER" 2>&1 | grep -E "^(VIOLATION|KNOWN-FINDING|HELD|INCONCLUSIVE|  what)" | head -12
done
rm -rf evidence; mv /tmp/seedtest-evidence/saved.$$ evidence
