#!/usr/bin/env python3
"""Writes MANIFEST.json from checks_table.py + manifest_meta.py (single source of truth)."""
import json, os, subprocess
from checks_table import PROPS
from manifest_meta import META, HOOK_COMMITS, NOT_APPLICABLE, NOTES

here = os.path.dirname(os.path.abspath(__file__))
ids = [json.loads(l)["id"] for l in open(os.path.join(here, "properties.jsonl"))]
checks = []
for pid in ids:
    if pid not in PROPS or pid not in META:
        continue
    m = META[pid]
    checks.append({
        "property_id": pid,
        "quick_cmd": "./check %s quick" % pid,
        "thorough_cmd": "./check %s thorough" % pid,
        "evidence_file": "/verif/evidence/%s.json" % pid,
        "replay_cmd_template": "./check --replay {path}",
        "engine": "harness/" + PROPS[pid]["parts"][0]["pkg"],
        "level_claimed": {"category": PROPS[pid]["level"], "text": m["text"], "design_ref": "DESIGN.md section 5, " + pid},
        "level_note": m["note"],
        "technique": m["technique"],
    })
na = [{"property_id": p, "reason": NOT_APPLICABLE.get(p, "check not built yet in this round (runtime-monitoring design exists in DESIGN.md section 5)")} for p in ids if p not in PROPS or p not in META]
man = {
    "version": 1,
    "setup_cmd": "./check --setup",
    "hooks": {
        "guard": "verif",
        "enable": "go test -tags verif (the harness module replaces github.com/grafana/dskit with /repo and is always built with -tags verif)",
        "baseline_off_cmd": "cd /repo && GOFLAGS=-mod=mod GOPROXY=off go test -vet=off -count=1 -timeout 25m ./...",
        "source_commits": HOOK_COMMITS,
        "add_only": True,
    },
    "engines": [
        {"name": "harness", "path": "/verif/harness", "serves_properties": [c["property_id"] for c in checks],
         "kind_free_text": "Go test packages that run the real dskit code (from /repo via a replace directive) under testing/synctest virtual time, the race detector, hostile workloads and injected faults, with monitors (differential specifications, log checkers, porcupine) deciding; driver ./check"},
    ],
    "checks": checks,
    "not_applicable": na,
    "notes": NOTES,
}
json.dump(man, open(os.path.join(here, "MANIFEST.json"), "w"), indent=1)
print("claimed:", [c["property_id"] for c in checks])
print("not claimed:", [n["property_id"] for n in na])
