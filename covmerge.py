#!/usr/bin/env python3
"""Helper: merge the profiles written by coverage.py and list functions with low statement coverage.
  ./covmerge.py [min_statements]  -> /tmp/verif-cov/merged.cov and a per-function table (needs `go tool cover`)"""
import glob, subprocess, sys, os, collections
blocks = {}
for f in glob.glob('/tmp/verif-cov/*.cov'):
    if f.endswith('merged.cov'):
        continue
    for l in open(f):
        if l.startswith('mode:'):
            continue
        pos, n, c = l.rsplit(' ', 2)
        k = (pos, int(n))
        blocks[k] = max(blocks.get(k, 0), int(c))
with open('/tmp/verif-cov/merged.cov', 'w') as o:
    o.write('mode: set\n')
    for (pos, n), c in sorted(blocks.items()):
        o.write('%s %d %d\n' % (pos, n, 1 if c else 0))
env = dict(os.environ, GOFLAGS='-mod=mod', GOPROXY='off')
out = subprocess.run(['go', 'tool', 'cover', '-func=/tmp/verif-cov/merged.cov'], cwd='/verif/harness', env=env, capture_output=True, text=True)
print(out.stderr[-2000:])
rows = []
for l in out.stdout.splitlines():
    p = l.split()
    if len(p) == 3 and p[0] != 'total:':
        rows.append((p[0], p[1], float(p[2].rstrip('%'))))
perfile = collections.defaultdict(list)
for f, fn, pc in rows:
    perfile[f.split(':')[0]].append(pc)
for f in sorted(perfile):
    v = perfile[f]
    print('%-70s funcs=%3d zero=%3d avg=%.0f%%' % (f.replace('github.com/grafana/dskit/', ''), len(v), sum(1 for x in v if x == 0), sum(v) / len(v)))
print()
for f, fn, pc in rows:
    if pc < 50:
        print('%5.1f%% %s %s' % (pc, f.replace('github.com/grafana/dskit/', ''), fn))
