HOOK_COMMITS = []
NOT_APPLICABLE = {}
NOTES = ("All checks are runtime monitoring: the real code of /repo is executed (virtual clock via testing/synctest, Go race detector, "
         "harness-chosen schedules, injected faults) and monitors decide. Exit 2 / INCONCLUSIVE is never folded into held or violated. "
         "known_findings.json lists genuine defects (status fixed = repaired in /repo by a fix: commit; suppresses nothing).")
META = {
 "C01": {
  "technique": "differential runtime monitor: real ring.Ring lookups (under synctest virtual clock) vs executable walk/majority specification; metamorphic +1-instance pairs; MergeTokens permutation oracle",
  "text": "Every generated ring descriptor is published through a KV store to a real ring.Ring client inside a synctest bubble (exact heartbeat ages) and each (key, operation) lookup is compared with a 60-line clockwise-walk + majority specification written from the statement; a small universe (3 instances x 2 tokens over the boundary alphabet incl. 0,1,2^32-1) is enumerated, larger rings are seeded-random; add-one-instance pairs check the locality clause on real answers; MergeTokens/GetTokens are checked over all list orders. Held = no disagreement on the cases listed in the evidence.",
  "note": "Trusted: the walk specification (harness/spec/walk.go) as the reading of the statement, Go synctest, RecStore. Sampling outside the enumerated small universe.",
 },
 "C14": {
  "technique": "differential runtime monitor between two real APIs: TokenRanges.IncludesKey vs Ring.Get / PartitionRing.ActivePartitionForKey; exhaustive small layouts + random large ones",
  "text": "For every layout (all assignments of the boundary alphabet {0,1,2,2^32-3..2^32-1} to <=3 owners x <=3 tokens, exhaustively; random layouts up to 64 owners x 128 tokens) and every boundary key, IncludesKey on the reported ranges is compared with the real lookup (a zone-aware ring.Ring client with zones = RF fed through the store, and an all-active PartitionRing); tiling (exactly one owner per key and zone) and range well-formedness are asserted directly.",
  "note": "Trusted: the lookup side is the real Ring.Get/ActivePartitionForKey (checked against the walk specification by C01/C15). Random layouts are sampled; boundary keys sampled on large layouts.",
 },
}
