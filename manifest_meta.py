HOOK_COMMITS = []
NOT_APPLICABLE = {}
NOTES = ("All checks are runtime monitoring: the real code of /repo is executed (virtual clock via testing/synctest, Go race detector, "
         "harness-chosen schedules, injected faults) and monitors decide. Exit 2 / INCONCLUSIVE is never folded into held or violated. "
         "known_findings.json lists genuine defects (status fixed = repaired in /repo by a fix: commit; suppresses nothing).")
META = {
 "C01": {
  "technique": "differential runtime monitor: real ring.Ring lookups (under synctest virtual clock) vs executable walk/majority specification; metamorphic +1-instance pairs; MergeTokens permutation oracle",
  "text": "Every generated ring descriptor is published through a KV store to a real ring.Ring client inside a synctest bubble (exact heartbeat ages) and each (key, operation) lookup is compared with a 60-line clockwise-walk + majority specification written from the statement; a small universe (3 instances x 2 tokens over the boundary alphabet incl. 0,1,2^32-1) is enumerated, larger rings are seeded-random; add-one-instance pairs check the locality clause on real answers; MergeTokens/GetTokens are checked over all list orders. Held = no disagreement on the cases listed in the evidence.",
  "note": "Trusted: the walk specification (harness/spec/walk.go) as the reading of the statement, Go synctest, RecStore. Sampling outside the enumerated small universe.",
 },
 "C14": {
  "technique": "differential runtime monitor between two real APIs: TokenRanges.IncludesKey vs Ring.Get / PartitionRing.ActivePartitionForKey; exhaustive small layouts + random large ones",
  "text": "For every layout (all assignments of the boundary alphabet {0,1,2,2^32-3..2^32-1} to <=3 owners x <=3 tokens, exhaustively; random layouts up to 64 owners x 128 tokens) and every boundary key, IncludesKey on the reported ranges is compared with the real lookup (a zone-aware ring.Ring client with zones = RF fed through the store, and an all-active PartitionRing); tiling (exactly one owner per key and zone) and range well-formedness are asserted directly.",
  "note": "Trusted: the lookup side is the real Ring.Get/ActivePartitionForKey (checked against the walk specification by C01/C15). Random layouts are sampled; boundary keys sampled on large layouts.",
 },
 "C02": {
  "technique": "runtime monitor over real executors: minimal ack sets accepted by a real DoBatch x minimal answer sets accepted by a real DoUntilQuorum on real ring lookups; set-intersection oracle",
  "text": "For seeded-random rings (1-8 instances, 1-5 zones, RF 1-5, all states and heartbeat ages, under a virtual clock) every minimal acknowledging subset of the real Write replica set is driven through a real DoBatch, every minimal answering subset (instances or whole zones) of the real ring-wide Read set through a real DoUntilQuorum; for every accepted pair the monitor checks a common instance (also against the ids DoUntilQuorum actually returned). Held = all accepted pairs on the listed rings intersect.",
  "note": "Sampling of rings and keys; subsets exhaustive per ring (read subsets capped at 40 when there are more). Trusted: Go synctest, RecStore.",
 },
 "C03": {
  "technique": "runtime algebraic-law monitor on real Merge: exhaustive pairs/strided triples over a small universe + shuffled/regrouped/duplicated deliveries to replicas",
  "text": "Real Desc.Merge and PartitionRingDesc.Merge (localCAS=false) run on deep clones: idempotence, commutativity, associativity, sufficiency of the reported change (into the pre-merge state and into a superset replica), nil-change => unchanged content, and the per-entry newer-wins/removal-wins-on-tie rule, on all pairs of a 343-descriptor instance universe and of a 494-descriptor partition universe per content world, strided triples, and random update sets delivered to 3-5 replicas in shuffled order with regrouping and duplication (unsorted/duplicated incoming token lists).",
  "note": "Precondition enforced by construction: one content per (entry, timestamp, removed?), disjoint token sets. Triples are strided in quick, complete over timestamps {1,2} in thorough.",
 },
 "C05": {
  "technique": "runtime invariant monitor + exact reference state after every real Merge in long collision-heavy chains; lookups on a real ring.Ring fed each reached state",
  "text": "Chains of gossip merges, replica-to-replica full-state/change merges and local-CAS merges over a 6-10 token space (collisions in ~40% of steps) run on the real Merge under a virtual clock; after every step the receiver is compared exactly with last-writer-wins followed by the statement's collision rule, one-holder/sortedness invariants are asserted, repeated merges must agree (map order), and the reader-visible state is served by a real ring.Ring queried through Get, GetReplicationSetForOperation, GetTokenRangesForInstance and ShuffleShard[WithLookback] for ErrInconsistentTokensInfo and panics.",
  "note": "Cross-replica winner equality is only demanded through the per-merge rule (replicas with different histories may legitimately differ until owners heartbeat again; DESIGN C05 F).",
 },
 "C16": {
  "technique": "runtime post-condition monitor on real generators: hostile taken sets from the replayed PRNG, birthday-size requests, full per-zone token tables via a verif hook, per-prefix ownership spread, AddPartition sequences",
  "text": "Random generator: seeded generators whose next candidates are placed in the taken set, unseeded and concurrent use, 3x10^5-token requests; spread-minimising: token tables of all instances 0..300 (thorough 0..2000) x 8 zones obtained through the verif hook and cross-checked against each instance's own generator and the name-based constructor, congruence mod 8, global uniqueness, sub-requests under taken sets equal own-tokens-minus-taken, ownership spread < 1% on every evaluated prefix; partitions added one by one equal the generator and stay disjoint.",
  "note": "Negative counts are outside the domain. Spread prefixes: all <= 64 (two zones: all <= 300) plus a seeded stride; thorough reaches instance index 2000.",
 },
 "C20": {
  "technique": "runtime differential monitor: real resolvers vs grammar specification on exhaustive short strings, pooled lists, random bytes and coverage-guided fuzzing; hop-chain identity monitor incl. real loopback HTTP and bufconn gRPC",
  "text": "TenantID/TenantIDs/ExtractWithMetadata/TenantIDsFromOrgID/MultiResolver are compared with a byte-class grammar written from the documentation on all 30941 strings of length <= 4 over {a Z 0 . | : = / NUL 0x80 0xFF space -} (thorough: length 5, 402k), lists of 0-5 pooled identifiers, random bytes, and (thorough) 2x10^6 go-fuzz executions; chains of 1-8 inject/extract hops (HTTP header, auth middleware, gRPC metadata, unary/stream interceptors) must fail or preserve the value byte for byte; valid identifiers also cross a real loopback HTTP server and a bufconn gRPC server; requests without org id must be rejected at every entry point.",
  "note": "Real wire hops only for valid identifiers (HTTP itself rejects control bytes). Empty identifier is inside the documented grammar.",
 },
 "C10": {
  "technique": "runtime trace monitor with a deterministic step scheduler (synctest): gated replica callbacks released one by one, 'returned iff decided' oracle per prefix; concurrent mode under the Go race detector",
  "text": "The real DoBatchWithOptions runs inside a synctest bubble against a fake DoBatchRing, a real ring.Ring or the partition batch ring; replica callbacks park on gates that the harness opens in a chosen order, calling synctest.Wait() after each, so after every prefix of completions the monitor compares 'has it returned, with nil or which error' against the decision rule of the statement (three-valued: must-not / may / must), and at the end exactly-once return, one call per selected replica with exactly its indexes, cleanup once and after the last call, custom spawner use. All 3^n outcome assignments x n! orders are run for shapes with <= 4 replica calls, samples above; cancellation at random positions; empty key list; failing lookup. A second part runs all callbacks at once under -race and checks the order-independent verdict.",
  "note": "Orders of external completion events are enumerated, not instruction interleavings inside dskit; the latter only through the -race part. MaxErrors < set size assumed (as every ring produces).",
 },
 "C11": {
  "technique": "runtime trace monitor with a deterministic step scheduler (synctest): gated calls, hedging ticks as virtual sleeps, per-prefix criterion oracle, result-conservation and context ledgers; concurrent mode under the Go race detector",
  "text": "The real DoUntilQuorum, DoUntilQuorumWithoutSuccessfulContextCancellation, DoMultiUntilQuorum... and legacy ReplicationSet.Do run in a synctest bubble with every call parked on a gate; the harness performs one action at a time (release a call with its success/failure/terminal outcome, advance the virtual clock by the hedging delay, cancel the caller) and calls synctest.Wait(); after each action: returned iff the counting criterion of the statement decided, exact result set, bound on calls started under request minimisation (minimal + failures + ticks; zone order of the sorter); after draining every call: each successful result returned xor cleaned exactly once, contexts of unused calls cancelled, at most one call per instance. All 2^n outcomes x n! priorities for <= 4 instances, sampled above; a second part lets calls finish on their own under -race.",
  "note": "Which zones/instances are tried first without a sorter is random in the implementation: the observed start set is taken as input and only its size and order-prefix are constrained. Legacy Do is checked for criterion/return only.",
 },
}
