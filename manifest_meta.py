HOOK_COMMITS = []
NOT_APPLICABLE = {}
NOTES = ("All checks are runtime monitoring: the real code of /repo is executed (virtual clock via testing/synctest, Go race detector, "
         "harness-chosen schedules, injected faults) and monitors decide. Exit 2 / INCONCLUSIVE is never folded into held or violated. "
         "known_findings.json lists genuine defects (status fixed = repaired in /repo by a fix: commit; suppresses nothing).")
META = {
 "C01": {
  "technique": "differential runtime monitor: real ring.Ring lookups (under synctest virtual clock) vs executable walk/majority specification; metamorphic +1-instance pairs; MergeTokens permutation oracle",
  "text": "Every generated ring descriptor is published through a KV store to a real ring.Ring client inside a synctest bubble (exact heartbeat ages) and each (key, operation) lookup is compared with a 60-line clockwise-walk + majority specification written from the statement; a small universe (3 instances x 2 tokens over the boundary alphabet incl. 0,1,2^32-1) is enumerated, larger rings are seeded-random; add-one-instance pairs check the locality clause on real answers; MergeTokens/GetTokens are checked over all list orders. Held = no disagreement on the cases listed in the evidence.",
  "note": "Trusted: the walk specification (harness/spec/walk.go) as the reading of the statement, Go synctest, RecStore. Sampling outside the enumerated small universe.",
 },
}
