# Table of checks: property -> level + parts (one test process each).
# part: name, pkg (dir under harness/), race (build with the race detector),
#       run (go test -run regexp), timeout {tier: seconds}, tiers (restrict), args.

def P(name, pkg, race=False, run=None, quick=1500, thorough=14400, tiers=None, args=None, fuzz=None):
    d = {"name": name, "pkg": pkg, "race": race, "timeout": {"quick": quick, "thorough": thorough}}
    if run:
        d["run"] = run
    if tiers:
        d["tiers"] = tiers
    if args:
        d["args"] = args
    if fuzz:
        d["fuzz"] = fuzz
    return d

PROPS = {
    "C09": {"level": "fault_enumeration", "parts": [P("main", "c09", run="^TestC09$"), P("strace", "c09", run="^TestC09Strace$")]},
    "C08": {"level": "exploration", "parts": [P("main", "c08", run="^TestC08$"), P("race", "c08", race=True, run="^TestC08Race$")]},
    "C07": {"level": "exploration", "parts": [P("race", "c07", race=True, run="^TestC07$")]},
    "C04": {"level": "exploration", "parts": [P("main", "c04", run="^TestC04$")]},
    "C06": {"level": "fault_enumeration", "parts": [P("main", "c06", run="^TestC06$"), P("race", "c06", race=True, run="^TestC06Race$")]},
    "C13": {"level": "exploration", "parts": [P("main", "c13", run="^TestC13$"), P("hooks", "c13", run="^TestC13Hooks$"), P("race", "c13", race=True, run="^TestC13Race$")]},
    "C15": {"level": "exploration", "parts": [P("main", "c15", run="^TestC15$")]},
    "C19": {"level": "exploration", "parts": [P("main", "c19", run="^TestC19$")]},
    "C12": {"level": "exploration", "parts": [P("main", "c12", run="^TestC12$")]},
    "C18": {"level": "exploration", "parts": [P("main", "c18", run="^TestC18$"), P("race", "c18", race=True, run="^TestC18Race$")]},
    "C17": {"level": "exploration", "parts": [P("step", "c17", run="^TestC17$"), P("race", "c17", race=True, run="^TestC17Race$")]},
    "C11": {"level": "exploration", "parts": [P("step", "c11", run="^TestC11$"), P("race", "c11", race=True, run="^TestC11Race$")]},
    "C10": {"level": "exploration", "parts": [P("step", "c10", run="^TestC10$"), P("race", "c10", race=True, run="^TestC10Race$")]},
    "C20": {"level": "exploration", "parts": [P("main", "c20", run="^TestC20$"),
                                              P("fuzz", "c20", tiers=["thorough"], fuzz={"target": "FuzzResolvers", "execs": {"quick": 100000, "thorough": 2000000}})]},
    "C16": {"level": "exploration", "parts": [P("main", "c16", run="^TestC16$")]},
    "C01": {"level": "exploration", "parts": [P("main", "c01", run="^TestC01$")]},
    "C02": {"level": "exploration", "parts": [P("main", "c02", run="^TestC02$")]},
    "C03": {"level": "exploration", "parts": [P("main", "c03", run="^TestC03$")]},
    "C05": {"level": "exploration", "parts": [P("main", "c05", run="^TestC05$")]},
    "C14": {"level": "exploration", "parts": [P("main", "c14", run="^TestC14$")]},
}
