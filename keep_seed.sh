#!/bin/bash
# usage: keep_seed.sh <ID> <agent-worktree> <property> "<needs>" "<caught-by>"
set -e
ID="$1"; SRC="$2"; PROP="$3"; NEEDS="$4"; CAUGHT="$5"
D=/verif/seeded/$ID
mkdir -p $D
cp $SRC/seed.patch $D/patch.diff
DEMO=$(cd $SRC && find . -name zz_seed_demo_test.go | head -1)
cp $SRC/$DEMO $D/zz_seed_demo_test.go
cp $SRC/SEED_META.md $D/AUTHOR_NOTES.md
python3 - "$ID" "$PROP" "$NEEDS" "$CAUGHT" "$DEMO" <<'PY'
import json,sys,re
sid,prop,needs,caught,demo=sys.argv[1:6]
conf=open('/tmp/confirm-%s.out'%sid).read().strip().splitlines() if True else []
json.dump({
 "id": sid, "breaks_property": prop,
 "written_by": "independent sub-agent given only the property text and a scratch worktree of /repo",
 "needs_to_manifest": needs,
 "demo_test": {"file": "zz_seed_demo_test.go", "place_in": demo.lstrip('./').rsplit('/',1)[0], "run": "go test -count=1 -run '^TestSeedDemo$' ./%s/" % demo.lstrip('./').rsplit('/',1)[0]},
 "confirmed_by_me_in_scratch_worktree": conf,
 "how_to_run_checks_against_it": "git -C /repo apply /verif/seeded/%s/patch.diff && ./check %s quick ; git -C /repo checkout -- .   (or ./seedtest.sh /verif/seeded/%s/patch.diff quick %s)" % (sid,prop,sid,prop),
 "detected_by": caught,
}, open('/verif/seeded/%s/meta.json'%sid,'w'), indent=1)
PY
ls $D
