#!/bin/bash
# usage: mut.sh <property> <tier> <file-relative-to-repo> <python-regex-or-literal old> <new>   (literal replace, first occurrence)
# Runs the check of <property> against a scratch copy of /repo with one edit applied.
set -e
M=/tmp/verif-mut-$$
rsync -a --exclude .git /repo/ $M/
python3 - "$M/$3" "$4" "$5" <<'PY'
import sys
p,old,new=sys.argv[1:4]
s=open(p).read()
assert old in s, "pattern not found"
open(p,'w').write(s.replace(old,new,1))
PY
(cd $M && GOFLAGS=-mod=mod GOPROXY=off go build ./$(dirname $3)/ ) || { echo "MUTANT DOES NOT COMPILE"; rm -rf $M; exit 3; }
cd /verif
VERIF_REPO=$M ./check $1 $2 > /tmp/mut-out-$$.txt 2>&1 || true
grep -E "^VIOLATION|what:|^HELD|^INCONCLUSIVE" /tmp/mut-out-$$.txt | head -8
rm -rf $M /tmp/mut-out-$$.txt
./harness/gen_gomod.sh
